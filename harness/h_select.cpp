// Unit harness h_select  (C08, C19, selectors of C01c / C02c / C14 / C09)
// Real code: GreensFunction::prepare, Susceptibility::prepare, EnsembleAverage::prepare, TwoParticleGF::prepare
//   (getLeftIndex/getRightIndex/OperatorPartAtPosition, permutations3), FieldOperator::getBlockMapping/getLeftIndex/
//   getRightIndex/getPartFromLeftIndex/getPartFromRightIndex (real boost::bimap code), DensityMatrix::isRetained/getPart.
// Pre-state: B blocks; every operator's block bimap is an ARBITRARY partial injection (blocks.h) - not only the monotone
//   maps the default (N,Sz) partition produces: self-maps b->b (one block), non-monotone maps and maps with gaps are all
//   covered; retained flags are symbolic.
// SEL 0: Green's function   parts == { (L,R) : C maps R->L, CX maps L->R, retained(L) or retained(R) }, each built from
//        C.part(left L), CX.part(right L), H(R) inner, H(L) outer, DM(R) inner, DM(L) outer;  Vanishing == no part
// SEL 1: susceptibility     same with A, B
// SEL 2: ensemble average   result = sum over diagonal retained blocks
// SEL 3: two-particle GF    for each of the six permutations p and each block 4-cycle
//        b0 <-O_p(0)- b1 <-O_p(1)- b2 <-O_p(2)- b3 <-CX4- b0  exactly one part with those operator parts, H/DM parts b0..b3 and
//        permutation p, kept iff one of b0..b3 is retained; no other part.
#include "blocks.h"
#include "pomerol/GreensFunction.h"
#include "pomerol/Susceptibility.h"
#include "pomerol/EnsembleAverage.h"
#include "pomerol/TwoParticleGF.h"
using namespace Pomerol;
using namespace verif;
#ifndef SEL
#define SEL 0
#endif
#ifndef NBLOCKS
#define NBLOCKS 3
#endif
#ifndef SYMRET
#define SYMRET 1
#endif

extern "C" void h_main() {
    const int B = NBLOCKS;
    blk::World w(B, SYMRET != 0);
#if SEL == 0 || SEL == 1
#if SEL == 0
    blk::OpBuilder<AnnihilationOperator, AnnihilationOperatorPart> c(w, "c", 0);
    blk::OpBuilder<CreationOperator, CreationOperatorPart> cx(w, "cx", 1);
    GreensFunction G(*w.S, *w.H, *c.op, *cx.op, *w.DM);
    typedef GreensFunctionPart PartT;
#else
    blk::OpBuilder<QuadraticOperator, QuadraticOperatorPart> c(w, "a", 0);
    blk::OpBuilder<QuadraticOperator, QuadraticOperatorPart> cx(w, "b", 1);
    Susceptibility G(*w.S, *w.H, *c.op, *cx.op, *w.DM);
    typedef SusceptibilityPart PartT;
#endif
    G.prepare();
    int expected = 0;
    bool used[8]; int np = 0;
    for (auto it = G.parts.begin(); it != G.parts.end(); ++it, ++np) used[np] = false;
    for (int L = 0; L < B; ++L) {
        int R = c.preimage(L, B);                 // C: R -> L
        if (R < 0) continue;
        if (cx.image[L] != R) continue;           // CX: L -> R
        bool keep = w.retained[L] || w.retained[R];
        // find the part built for this stripe
        int found = 0, k = 0;
        for (auto it = G.parts.begin(); it != G.parts.end(); ++it, ++k) {
            PartT& p = **it;
#if SEL == 0
            bool same = (&p.C == (AnnihilationOperatorPart*)c.part_of_right[R]) && (&p.CX == (CreationOperatorPart*)cx.part_of_right[L]);
#else
            bool same = (&p.A == c.part_of_right[R]) && (&p.B == cx.part_of_right[L]);
#endif
            if (!same) continue;
            ++found; used[k] = true;
            check(&p.HpartInner == w.H->parts[R].get() && &p.HpartOuter == w.H->parts[L].get(), "part uses H(R) as inner and H(L) as outer block");
            check(&p.DMpartInner == w.DM->parts[R] && &p.DMpartOuter == w.DM->parts[L], "part uses DM(R) as inner and DM(L) as outer block");
        }
        check(found == (keep ? 1 : 0), "exactly one part per world stripe with a retained block, none for a fully discarded stripe");
        if (keep) ++expected; else reach("stripe_skipped_all_discarded");
        if (L == R) reach("self_map_stripe");
        if (keep && !(w.retained[L] && w.retained[R])) reach("stripe_kept_with_one_discarded_block");
    }
    check((int)G.parts.size() == expected, "no part outside the world stripes");
    check(G.isVanishing() == (expected == 0), "Vanishing iff there is no part");
    if (expected >= 2) reach("two_stripes");
    if (expected == 0) reach("vanishing");
#elif SEL == 2
    blk::OpBuilder<QuadraticOperator, QuadraticOperatorPart> a(w, "a", 0);
    // diagonal blocks carry a symbolic 1x1 matrix element, weights are symbolic
    double refv = 0;
    for (int r = 0; r < B; ++r) {
        DensityMatrixPart* dp = w.DM->parts[r];
        new (&dp->weights) RealVectorType(1);
        double wt = sym_real(pre::nm("w", r)); assume(wt >= 0); dp->weights(0) = wt;
        if (a.image[r] < 0) continue;
        QuadraticOperatorPart* p = a.part_of_right[r];
        new (&p->elementsRowMajor) RowMajorMatrixType(1, 1);
        double v = sym_real(pre::nm("A", r));
        p->elementsRowMajor.insert(0, 0) = v;
        if (a.image[r] == r) { if (w.retained[r]) refv += v * wt; else reach("diagonal_block_discarded"); reach("diagonal_block"); }
        else reach("offdiagonal_block_ignored");
    }
    EnsembleAverage EA(*w.S, *w.H, *a.op, *w.DM);
    EA.prepare();
    check_eq(EA.getResult().real(), refv, "<A> == sum over retained diagonal blocks of A[n,n] w[n]");
#else
    blk::OpBuilder<AnnihilationOperator, AnnihilationOperatorPart> c1(w, "c1", 0);
    blk::OpBuilder<AnnihilationOperator, AnnihilationOperatorPart> c2(w, "c2", 1);
    blk::OpBuilder<CreationOperator, CreationOperatorPart> cx3(w, "cx3", 2);
    blk::OpBuilder<CreationOperator, CreationOperatorPart> cx4(w, "cx4", 3);
    TwoParticleGF X(*w.S, *w.H, *c1.op, *c2.op, *cx3.op, *cx4.op, *w.DM);
    X.prepare();
    static const int perms[6][3] = {{0, 1, 2}, {0, 2, 1}, {1, 0, 2}, {1, 2, 0}, {2, 0, 1}, {2, 1, 0}};
    static const int signs[6] = {1, -1, -1, 1, 1, -1};
    for (int p = 0; p < 6; ++p) {
        check(permutations3[p].perm[0] == (size_t)perms[p][0] && permutations3[p].perm[1] == (size_t)perms[p][1] && permutations3[p].perm[2] == (size_t)perms[p][2] && permutations3[p].sign == signs[p],
              "permutations3 lists the six permutations with their parities");
    }
    const int* img[3] = {c1.image, c2.image, cx3.image};
    FieldOperatorPart* const* pr[3] = {(FieldOperatorPart* const*)c1.part_of_right, (FieldOperatorPart* const*)c2.part_of_right, (FieldOperatorPart* const*)cx3.part_of_right};
    int expected = 0;
    for (int b0 = 0; b0 < B; ++b0) {
        int b3 = cx4.image[b0];                    // CX4: b0 -> b3
        if (b3 < 0) continue;
        for (int p = 0; p < 6; ++p) {
            const int* o0 = img[perms[p][0]]; const int* o1 = img[perms[p][1]]; const int* o2 = img[perms[p][2]];
            // O_p(2): b3 -> b2 ; O_p(1): b2 -> b1 ; O_p(0): b1 -> b0
            int b2 = o2[b3]; if (b2 < 0) continue;
            int b1 = o1[b2]; if (b1 < 0) continue;
            if (o0[b1] != b0) continue;
            bool keep = w.retained[b0] || w.retained[b1] || w.retained[b2] || w.retained[b3];
            int found = 0;
            for (size_t k = 0; k < X.parts.size(); ++k) {
                TwoParticleGFPart& t = *X.parts[k];
                if (!(t.Permutation == permutations3[p])) continue;
                if (&t.O1 != pr[perms[p][0]][b1] || &t.O2 != pr[perms[p][1]][b2] || &t.O3 != pr[perms[p][2]][b3]) continue;
                if (&t.CX4 != (CreationOperatorPart*)cx4.part_of_right[b0]) continue;
                ++found;
                check(&t.Hpart1 == w.H->parts[b0].get() && &t.Hpart2 == w.H->parts[b1].get() && &t.Hpart3 == w.H->parts[b2].get() && &t.Hpart4 == w.H->parts[b3].get(), "2PGF part uses H(b0..b3)");
                check(&t.DMpart1 == w.DM->parts[b0] && &t.DMpart2 == w.DM->parts[b1] && &t.DMpart3 == w.DM->parts[b2] && &t.DMpart4 == w.DM->parts[b3], "2PGF part uses DM(b0..b3)");
            }
            check(found == (keep ? 1 : 0), "exactly one 2PGF part per permutation and block 4-cycle with a retained block");
            if (keep) ++expected; else reach("cycle_skipped_all_discarded");
            if (keep && !w.retained[b0] && !w.retained[b1] && !w.retained[b2]) reach("cycle_kept_only_by_last_block");
        }
    }
    check((int)X.parts.size() == expected, "no 2PGF part outside the block 4-cycles");
    check(X.isVanishing() == (expected == 0), "Vanishing iff there is no part");
    if (expected >= 2) reach("two_cycles");
#endif
    reach("done");
}
