// Unit harness h_termmerge  (C01, C02, C14: reduction of like terms in the Lehmann sums, with the truncation band included)
// Real code: TermList<T>::add_term / size / operator() with T = GreensFunctionPart::Term (KIND 0), TwoParticleGFPart::NonResonantTerm
//   (KIND 1), TwoParticleGFPart::ResonantTerm (KIND 2), SusceptibilityPart::Term (KIND 3): Compare, IsNegligible, operator+=, operator().
// A history of NADD add_term calls with SYMBOLIC coefficients (no restriction: they may be tiny, cancel exactly, or fall inside the
// truncation band); the pole (triple) of every call is symbolically one of two SYMBOLIC values that are at least 1e-3 apart.
// Oracle = the documented rule of TermList.h: like terms are reduced to ONE term carrying the sum of the coefficients (and the poles
// of the terms, which coincide here); the reduced term is removed iff IsNegligible(term, number_of_other_terms + 1), i.e. iff the
// modulus of (every one of) its coefficient(s) is below Tolerance / (number_of_other_terms + 1); a term that is not like any stored
// one is inserted as it is.  The list must hold exactly the oracle's terms and evaluate to their sum - at a symbolic frequency, and
// for resonant terms both off and exactly on the resonance.
// NEAR=1 (two-particle terms only): the first pole of call k is P[q] + delta_k with SYMBOLIC |delta_k| <= 1e-9, i.e. like terms whose
// poles agree within the 1e-8 tolerance without being equal; documented rule (TwoParticleGFPart.h: "statistical weight ... for
// averaging"): the reduced term carries the ARITHMETIC MEAN of the poles of all terms merged into it.
#include "verif.h"
#include "pomerol/GreensFunctionPart.h"
#include "pomerol/SusceptibilityPart.h"
#include "pomerol/TwoParticleGFPart.h"
#ifndef KIND
#define KIND 0
#endif
#ifdef VERIF_NATIVE
// Term::operator+= is declared inline inside the library's .cpp files; the native replay build therefore compiles the
// library translation unit that defines it together with this harness
#if KIND == 1 || KIND == 2
#include "pomerol/TwoParticleGFPart.cpp"
#elif KIND == 3
#include "pomerol/SusceptibilityPart.cpp"
#else
#include "pomerol/GreensFunctionPart.cpp"
#endif
#endif
#ifndef NADD
#define NADD 3
#endif
#ifndef NEAR
#define NEAR 0
#endif
#if NEAR && (KIND == 0 || KIND == 3)
#error "NEAR is defined for the two-particle terms only (single-particle terms keep the pole of the first term)"
#endif
using namespace Pomerol;
using namespace verif;
static double mabs(double v) { return v < 0 ? -v : v; }

extern "C" void h_main() {
    double P[2] = {sym_real("Pa"), sym_real("Pb")};
    assume(mabs(P[0] - P[1]) >= 1e-3);
    static const char* const cn[4] = {"c0", "c1", "c2", "c3"}; static const char* const dn[4] = {"d0", "d1", "d2", "d3"};
    static const char* const wn[4] = {"p0", "p1", "p2", "p3"};
    double sum[2] = {0, 0}, sum2[2] = {0, 0}; bool present[2] = {false, false};
    double psum[2] = {0, 0}; int pcount[2] = {0, 0};   // NEAR: running sum / number of the first poles merged into the stored term
    static const char* const en[4] = {"e0", "e1", "e2", "e3"};
#if KIND == 0
    typedef GreensFunctionPart::Term T; const double TOL = 1e-8;
    TermList<T> L(T::Compare(1e-8), T::IsNegligible(TOL));
#elif KIND == 3
    typedef SusceptibilityPart::Term T; const double TOL = 1e-8;
    TermList<T> L(T::Compare(1e-8), T::IsNegligible(TOL));
#elif KIND == 1
    typedef TwoParticleGFPart::NonResonantTerm T; const double TOL = 1e-16;
    TermList<T> L(T::Compare(1e-8), T::IsNegligible(TOL));
#else
    typedef TwoParticleGFPart::ResonantTerm T; const double TOL = 1e-16;
    TermList<T> L(T::Compare(1e-8), T::IsNegligible(TOL));
#endif
    const double Q2 = 0.25, Q3 = -0.5;          // second and third pole of the two-particle terms (shared by all terms)
    for (int k = 0; k < NADD; ++k) {
        int q = (int)concretize(sym_int(wn[k], 0, 1));
        double c = sym_real(cn[k]);
#if KIND == 2
        double d = sym_real(dn[k]);
#else
        double d = 0;
#endif
#if NEAR
        double delta = sym_real(en[k]);
        assume(mabs(delta) <= 1e-9);
#else
        double delta = 0;
#endif
        const double pole = P[q] + delta;
        // ---- oracle
        if (!present[q]) { present[q] = true; sum[q] = c; sum2[q] = d; psum[q] = pole; pcount[q] = 1; }
        else {
            sum[q] += c; sum2[q] += d; psum[q] += pole; pcount[q] += 1;
            int others = present[1 - q] ? 1 : 0;
            bool negligible = mabs(sum[q]) < TOL / (others + 1);
#if KIND == 2
            negligible = negligible && mabs(sum2[q]) < TOL / (others + 1);
#endif
            if (negligible) { present[q] = false; sum[q] = 0; sum2[q] = 0; reach("merged_term_dropped"); }
            else reach("merged_term_kept");
        }
        // ---- real code
#if KIND == 0 || KIND == 3
        L.add_term(T(ComplexType(c, 0), pole));
#elif KIND == 1
        { T t; t.Coeff = ComplexType(c, 0); t.Poles[0] = pole; t.Poles[1] = Q2; t.Poles[2] = Q3; t.isz4 = false; t.Weight = 1; L.add_term(t); }
#else
        { T t; t.ResCoeff = ComplexType(c, 0); t.NonResCoeff = ComplexType(d, 0); t.Poles[0] = pole; t.Poles[1] = Q2; t.Poles[2] = Q3; t.isz1z2 = true; t.Weight = 1; L.add_term(t); }
#endif
    }
    int expect = (present[0] ? 1 : 0) + (present[1] ? 1 : 0);
    check((int)L.size() == expect, "the list holds one term per pole whose reduced coefficient is not negligible by the documented rule");
    if (expect == 2) reach("two_terms");
    double PM[2];       // pole of the reduced term: the mean of the merged poles (== P[q] unless NEAR)
    for (int q = 0; q < 2; ++q) PM[q] = present[q] ? psum[q] / pcount[q] : P[q];
    double x = sym_real("zre"), y = sym_real("zim");
    assume(y != 0);
    ComplexType z1(x, y);
#if KIND == 0 || KIND == 3
    ComplexType v = L(z1);
    ComplexType ref(0, 0);
    const double sgn = (KIND == 3) ? -1.0 : 1.0;    // bosonic terms carry the documented minus sign: -R/(z - P)
    for (int q = 0; q < 2; ++q) if (present[q]) ref += ComplexType(sgn * sum[q], 0) / (z1 - P[q]);
    check_eq(v.real(), ref.real(), "term list value == sum of reduced terms (real part)");
    check_eq(v.imag(), ref.imag(), "term list value == sum of reduced terms (imaginary part)");
#elif KIND == 1
    ComplexType z2(0.5, 1.5), z3(-0.25, 2.0);
    ComplexType v = L(z1, z2, z3);
    ComplexType ref(0, 0);
    for (int q = 0; q < 2; ++q) if (present[q]) ref += ComplexType(sum[q], 0) / ((z1 - PM[q]) * (z2 - Q2) * (z3 - Q3));
    check_eq(v.real(), ref.real(), "term list value == sum of reduced terms (real part)");
    check_eq(v.imag(), ref.imag(), "term list value == sum of reduced terms (imaginary part)");
#else
    // off the resonance for both poles: Im(z1 + z2) = y + (3 - y) = 3
    {
        ComplexType z2(0.5, 3.0 - y), z3(-0.25, 2.0);
        ComplexType v = L(z1, z2, z3, 1e-8);
        ComplexType ref(0, 0);
        for (int q = 0; q < 2; ++q) if (present[q]) ref += ComplexType(sum2[q], 0) / ((z1 + z2 - PM[q] - Q2) * (z1 - PM[q]) * (z3 - Q3));
        check_eq(v.real(), ref.real(), "resonant term list off resonance == sum of reduced terms (real part)");
        check_eq(v.imag(), ref.imag(), "resonant term list off resonance == sum of reduced terms (imaginary part)");
    }
    // exactly on the resonance of pole 0: z1 + z2 == P[0] + Q2   (pole 1 is then off resonance by P[0] - P[1])
    {
        ComplexType z2(PM[0] + Q2 - x, -y), z3(-0.25, 2.0);
        ComplexType v = L(z1, z2, z3, 1e-8);
        ComplexType ref(0, 0);
        if (present[0]) ref += ComplexType(sum[0], 0) / ((z1 - PM[0]) * (z3 - Q3));
        if (present[1]) ref += ComplexType(sum2[1], 0) / ((z1 + z2 - PM[1] - Q2) * (z1 - PM[1]) * (z3 - Q3));
        check_eq(v.real(), ref.real(), "resonant term list on resonance == sum of reduced terms (real part)");
        check_eq(v.imag(), ref.imag(), "resonant term list on resonance == sum of reduced terms (imaginary part)");
    }
#endif
    reach("done");
}
