// Unit harness h_vertex  (C15, C12)
// Real code: Vertex4::value, Vertex4::compute(N), Vertex4::operator() (real MatsubaraContainer4<Vertex4>), TwoParticleGF::operator()
//   (long,long,long), GreensFunction::operator()(long), part and term evaluation.
// Pre-state: chi and the four Green's functions G13, G24, G14, G23 are raw objects holding one symbolic term each (distinct
// symbolic residues and poles, so the five are distinguishable), beta > 0 symbolic.
// Oracle (documentation): value(n1,n2,n3) = chi(n1,n2,n3) + [n1==n3] beta G13(n1) G24(n2) - [n2==n3] beta G14(n1) G23(n2);
// after compute(N) the stored values returned by operator() equal value() inside and outside the window.
#include "prestate.h"
#include "pomerol/Vertex4.h"
using namespace Pomerol;
using namespace verif;

static GreensFunction& mk_gf(double beta, const char* name) {
    GreensFunction& G = pre::raw<GreensFunction>();
    new (static_cast<Thermal*>(&G)) Thermal(beta);
    new (&G.parts) std::list<GreensFunctionPart*>();
    G.Vanishing = false; G.Status = ComputableObject::Computed;
    GreensFunctionPart& P = pre::raw<GreensFunctionPart>();
    new (static_cast<Thermal*>(&P)) Thermal(beta);
    typedef GreensFunctionPart::Term T;
    new (&P.Terms) TermList<T>(T::Compare(1e-8), T::IsNegligible(1e-8));
    P.Terms.data.insert(T(ComplexType(sym_real(pre::nm(name, 0)), 0), sym_real(pre::nm(name, 1))));
    G.parts.push_back(&P);
    return G;
}

extern "C" void h_main() {
    double beta = sym_real("beta");
    assume(beta > 0);
    TwoParticleGF& X = pre::raw<TwoParticleGF>();
    new (static_cast<Thermal*>(&X)) Thermal(beta);
    new (&X.parts) std::vector<TwoParticleGFPart*>();
    X.Vanishing = false; X.Status = ComputableObject::Computed;
    {
        TwoParticleGFPart& P = pre::raw<TwoParticleGFPart>();
        new (static_cast<Thermal*>(&P)) Thermal(beta);
        typedef TwoParticleGFPart::NonResonantTerm NRT; typedef TwoParticleGFPart::ResonantTerm RT;
        new (&P.NonResonantTerms) TermList<NRT>(NRT::Compare(1e-8), NRT::IsNegligible(1e-16));
        new (&P.ResonantTerms) TermList<RT>(RT::Compare(1e-8), RT::IsNegligible(1e-16));
        new (&P.Permutation) Permutation3(permutations3[0]);
        P.ReduceResonanceTolerance = 1e-8; P.Status = ComputableObject::Computed;
        NRT t; t.Coeff = ComplexType(sym_real("chiC"), 0); t.Poles[0] = sym_real("chiP1"); t.Poles[1] = sym_real("chiP2"); t.Poles[2] = sym_real("chiP3");
        t.isz4 = false; t.Weight = 1; P.NonResonantTerms.data.insert(t);
        X.parts.push_back(&P);
    }
    GreensFunction& G13 = mk_gf(beta, "g13_"); GreensFunction& G24 = mk_gf(beta, "g24_");
    GreensFunction& G14 = mk_gf(beta, "g14_"); GreensFunction& G23 = mk_gf(beta, "g23_");
    Vertex4 V(X, G13, G24, G14, G23);
    static const long FR[6][3] = {{0, 1, -2}, {1, 0, 1}, {0, 1, 1}, {-1, -1, -1}, {2, -2, 0}, {1, 1, 0}};
    const long f = concretize(sym_int("freq", 0, 5));
    const long n1 = FR[f][0], n2 = FR[f][1], n3 = FR[f][2];
    ComplexType ref = X(n1, n2, n3);
    if (n1 == n3) { ref += beta * G13(n1) * G24(n2); reach("n1_eq_n3"); }
    if (n2 == n3) { ref -= beta * G14(n1) * G23(n2); reach("n2_eq_n3"); }
    ComplexType v = V.value(n1, n2, n3);
    record("v.re", v.real()); record("v.im", v.imag());
    check_eq(v.real(), ref.real(), "vertex value == chi + [n1=n3] beta G13 G24 - [n2=n3] beta G14 G23 (real part)");
    check_eq(v.imag(), ref.imag(), "vertex value == chi + [n1=n3] beta G13 G24 - [n2=n3] beta G14 G23 (imaginary part)");
    // storage transparency on the real Vertex4::compute / operator()
    V.compute(1);
    ComplexType s = V(n1, n2, n3);
    check_eq(s.real(), v.real(), "stored vertex == direct value (real part)");
    check_eq(s.imag(), v.imag(), "stored vertex == direct value (imaginary part)");
    reach("done");
}
