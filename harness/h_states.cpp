// Unit harness h_states  (C17, C07)
// Real code: StatesClassification::getBlockNumber(QuantumState / FockState), getInnerState(QuantumState / FockState),
//            getFockState(block, inner), Hamiltonian::getEigenValue(state) on a real block structure (pipeline.h).
// The state label is SYMBOLIC in [0, 2^N + 2]: labels 0..2^N-1 are valid and must be addressed consistently, every label
// >= 2^N must be rejected with exWrongState before any table is read (the memory monitor checks the symbolic index).
#include "pipeline.h"
using namespace Pomerol;
using namespace verif;

extern "C" void h_main() {
    pipeln::Model m;
    const unsigned long D = 1ul << m.M;
    long s = sym_int("state", 0, (long)D + 2);
    bool threw1 = false, threw2 = false;
    int b = -1; long in = -1;
    try { b = (int)m.S->getBlockNumber((QuantumState)s); } catch (StatesClassification::exWrongState&) { threw1 = true; }
    try { in = (long)m.S->getInnerState((QuantumState)s); } catch (StatesClassification::exWrongState&) { threw2 = true; }
    if ((unsigned long)s >= D) {
        check(threw1, "getBlockNumber rejects a label outside 0..2^N-1");
        check(threw2, "getInnerState rejects a label outside 0..2^N-1");
        reach("label_out_of_range");
    } else {
        check(!threw1 && !threw2, "valid label accepted");
        check(b >= 0 && b < m.NB && in >= 0 && in < (long)m.bsize(b), "valid label addresses an existing (block, inner) position");
        reach("label_valid");
    }
    // block / inner index out of range
    long bb = sym_int("block", 0, m.NB + 1), ii = sym_int("inner", 0, 5);
    bool threw3 = false;
    try { FockState f = m.S->getFockState(BlockNumber((int)bb), (InnerQuantumState)ii); (void)f; } catch (StatesClassification::exWrongState&) { threw3 = true; }
    bool valid = bb < m.NB && ii < (long)m.S->getBlockSize(BlockNumber((int)(bb < m.NB ? bb : 0)));
    check(threw3 == !valid, "getFockState throws exactly for a non-existing (block, inner) position");
    reach("done");
}
