// Unit harness h_gfpart  (C01a, C11, C17, C19)
//
// Real code driven: GreensFunctionPart::GreensFunctionPart, ::compute, ::operator()(ComplexType),
//                   TermList<Term>::add_term / operator(), Term::operator()(z), Term::Compare, Term::IsNegligible
// Pre-state       : C  (OUTER x INNER, row major)  and  CX (INNER x OUTER, column major) with symbolic values AND
//                   symbolic sparsity patterns, storage arrays of exactly nnz elements; eigenvalues E_out[OUTER],
//                   E_in[INNER]; weights w_out, w_in >= 0; z = x + i y with y != 0.
// Oracle (documentation formula, GreensFunctionPart.h):
//     G(z) = sum_{n<OUTER, m<INNER : |R_nm| > 1e-8}  R_nm / (z - (E_in[m] - E_out[n])),
//     R_nm = C[n,m] * CX[m,n] * (w_out[n] + w_in[m])
// REGIME 0 : all poles of contributing pairs are >= 1e-8 apart (no merging)        -> exact equality
// REGIME 1 : poles pairwise equal or >= 1e-8 apart, all contributing residues > 0  -> exact equality (merging, no
//            cancellation, hence no term is dropped after a merge)
// REGIME 2 : only the memory-safety monitors (no arithmetic oracle): every pattern pair, used for C17.
// REGIME 3 : (C11) the part built from the adjoint operator pair (C' = CX^T, CX' = C^T) satisfies G'(conj z) == conj G(z)
// REGIME 4 : (C11) diagonal component, CX = C^T: Im G(i w) <= 0 for w > 0
// REGIME 5 : (C19) 1x1 part whose two blocks were discarded at tolerance eps (all weights <= eps):
//            |Im z| |G_part(z)| <= 2 eps |C CX|   (per-part bound; summed over parts with sum|C CX| <= dim it gives 2 eps dim/|Im z|)
// REGIME 6 : (C08) splitting a block-compatible 2x2 block pair into two 1x1 block pairs leaves the sum of the part values
//            unchanged (two partitions compared where no eigen-solver is involved)
//            (sign and end-point identities in imaginary time are decided per term in h_gfterm)
#include "prestate.h"
#include "pomerol/GreensFunctionPart.h"

#ifndef OUTER
#define OUTER 2
#endif
#ifndef INNER
#define INNER 2
#endif
#ifndef REGIME
#define REGIME 0
#endif

using namespace Pomerol;
using namespace verif;

static double mabs(double v) { return v < 0 ? -v : v; }

extern "C" void h_main() {
    const int o = OUTER, i = INNER;
    pre::Dense dC = pre::dense(o, i, "C");
#if REGIME == 4
    pre::Dense dCX; dCX.rows = i; dCX.cols = o;
    for (int r = 0; r < i; ++r) for (int c = 0; c < o; ++c) { dCX.present[r][c] = dC.present[c][r]; dCX.v[r][c] = dC.v[c][r]; }
#else
    pre::Dense dCX = pre::dense(i, o, "CX");
#endif
    HamiltonianPart& Hin = pre::hpart(i, "Ein");
    HamiltonianPart& Hout = pre::hpart(o, "Eout");
    double beta = sym_real("beta");
    assume(beta > 0);
    DensityMatrixPart& DMin = pre::dmpart(Hin, i, beta, "win");
    DensityMatrixPart& DMout = pre::dmpart(Hout, o, beta, "wout");
    AnnihilationOperatorPart& C = pre::oppart<AnnihilationOperatorPart>(dC);
    CreationOperatorPart& CX = pre::oppart<CreationOperatorPart>(dCX);

    GreensFunctionPart G(C, CX, Hin, Hout, DMin, DMout);
    G.compute();
    reach("computed");

#if REGIME == 3
    {
        pre::Dense tC, tCX; tC.rows = o; tC.cols = i; tCX.rows = i; tCX.cols = o;
        for (int r = 0; r < o; ++r) for (int c = 0; c < i; ++c) { tC.present[r][c] = dCX.present[c][r]; tC.v[r][c] = dCX.v[c][r]; }
        for (int r = 0; r < i; ++r) for (int c = 0; c < o; ++c) { tCX.present[r][c] = dC.present[c][r]; tCX.v[r][c] = dC.v[c][r]; }
        AnnihilationOperatorPart& C2 = pre::oppart<AnnihilationOperatorPart>(tC);
        CreationOperatorPart& CX2 = pre::oppart<CreationOperatorPart>(tCX);
        GreensFunctionPart G2(C2, CX2, Hin, Hout, DMin, DMout);
        G2.compute();
        double x = sym_real("zre"), y = sym_real("zim");
        assume(y != 0);
        ComplexType g = G(ComplexType(x, y)), g2 = G2(ComplexType(x, -y));
        check_eq(g2.real(), g.real(), "Re G_ji(conj z) == Re G_ij(z)");
        check_eq(g2.imag(), -g.imag(), "Im G_ji(conj z) == -Im G_ij(z)");
        reach("adjoint_pair_checked");
    }
#elif REGIME == 4
    {
        double y = sym_real("w");
        assume(y > 0);
        ComplexType g = G(ComplexType(0, y));
        check(g.imag() <= 0, "Im G_ii(i w) <= 0 for w > 0");
        // (the imaginary-time statements are decided per term in h_gfterm; a part is the sum of its terms)
        reach("diagonal_checked");
    }
#elif REGIME == 5
    {
        double eps = sym_real("eps");
        assume(eps >= 0);
        for (int n = 0; n < o; ++n) assume(DMout.weights(n) <= eps);
        for (int m = 0; m < i; ++m) assume(DMin.weights(m) <= eps);
        double x = sym_real("zre"), y = sym_real("zim");
        assume(y != 0);
        ComplexType g = G(ComplexType(x, y));
        double lhs = y * y * (g.real() * g.real() + g.imag() * g.imag());
        double cc = dC.present[0][0] && dCX.present[0][0] ? dC.v[0][0] * dCX.v[0][0] : 0;
        check_le(lhs, 4 * eps * eps * cc * cc, "|Im z|^2 |G_part(z)|^2 <= (2 eps |C CX|)^2 for a discarded 1x1 stripe");
        reach("bound_checked");
    }
#elif REGIME == 6
    {
        // only meaningful for block-compatible patterns: C and CX diagonal
        bool diag = true;
        for (int r = 0; r < o; ++r) for (int c = 0; c < i; ++c) if (r != c && (dC.present[r][c] || dCX.present[c][r])) diag = false;
        if (diag && o == 2 && i == 2) {
            double x = sym_real("zre"), y = sym_real("zim");
            assume(y != 0);
            ComplexType whole = G(ComplexType(x, y));
            ComplexType split(0, 0);
            for (int k = 0; k < 2; ++k) {
                pre::Dense c1, cx1; c1.rows = c1.cols = cx1.rows = cx1.cols = 1;
                c1.present[0][0] = dC.present[k][k]; c1.v[0][0] = dC.v[k][k];
                cx1.present[0][0] = dCX.present[k][k]; cx1.v[0][0] = dCX.v[k][k];
                HamiltonianPart& hi = pre::raw<HamiltonianPart>(); new (&hi.H) MatrixType(); new (&hi.Eigenvalues) RealVectorType(1);
                hi.Eigenvalues(0) = Hin.Eigenvalues(k); hi.Status = ComputableObject::Computed;
                HamiltonianPart& ho = pre::raw<HamiltonianPart>(); new (&ho.H) MatrixType(); new (&ho.Eigenvalues) RealVectorType(1);
                ho.Eigenvalues(0) = Hout.Eigenvalues(k); ho.Status = ComputableObject::Computed;
                DensityMatrixPart& di = pre::raw<DensityMatrixPart>(); new (static_cast<Thermal*>(&di)) Thermal(beta); new (&di.weights) RealVectorType(1);
                di.weights(0) = DMin.weights(k); di.retained = true;
                DensityMatrixPart& dou = pre::raw<DensityMatrixPart>(); new (static_cast<Thermal*>(&dou)) Thermal(beta); new (&dou.weights) RealVectorType(1);
                dou.weights(0) = DMout.weights(k); dou.retained = true;
                AnnihilationOperatorPart& Ck = pre::oppart<AnnihilationOperatorPart>(c1);
                CreationOperatorPart& CXk = pre::oppart<CreationOperatorPart>(cx1);
                GreensFunctionPart Gk(Ck, CXk, hi, ho, di, dou);
                Gk.compute();
                split += Gk(ComplexType(x, y));
            }
            // the two poles either coincide exactly or are well separated (merging inside the 2x2 part is then exact)
            double P0 = Hin.Eigenvalues(0) - Hout.Eigenvalues(0), P1 = Hin.Eigenvalues(1) - Hout.Eigenvalues(1);
            if (P0 != P1) assume(mabs(P0 - P1) >= 1e-8);
            // and no cancellation below the tolerance when they merge
            double R0 = dC.v[0][0] * dCX.v[0][0] * (DMout.weights(0) + DMin.weights(0)), R1 = dC.v[1][1] * dCX.v[1][1] * (DMout.weights(1) + DMin.weights(1));
            if (P0 == P1 && mabs(R0) > 1e-8 && mabs(R1) > 1e-8) assume(mabs(R0 + R1) >= 1e-8);
            check_eq(whole.real(), split.real(), "sum of part values is invariant under splitting the block pair (real part)");
            check_eq(whole.imag(), split.imag(), "sum of part values is invariant under splitting the block pair (imaginary part)");
            reach("split_compared");
        }
    }
#elif REGIME != 2
    // ---- reference ------------------------------------------------------------
    double x = sym_real("zre"), y = sym_real("zim");
    assume(y != 0);
    double R[4][4], P[4][4];
    bool on[4][4];
    int npairs = 0;
    for (int n = 0; n < o; ++n)
        for (int m = 0; m < i; ++m) {
            on[n][m] = false;
            if (!(dC.present[n][m] && dCX.present[m][n])) continue;
#ifdef POMEROL_COMPLEX_MATRIX_ELEMENTS
#error "complex build uses h_gfpart_c.cpp"
#endif
            R[n][m] = dC.v[n][m] * dCX.v[m][n] * (DMout.weights(n) + DMin.weights(m));
            P[n][m] = Hin.Eigenvalues(m) - Hout.Eigenvalues(n);
#if REGIME == 1
            assume(R[n][m] > 1e-8);
            on[n][m] = true;
#else
            on[n][m] = mabs(R[n][m]) > 1e-8;   // forks: contributing / dropped
#endif
            if (on[n][m]) ++npairs;
        }
    // pole separation assumptions
    bool merged = false;
    for (int a = 0; a < o * i; ++a)
        for (int b = a + 1; b < o * i; ++b) {
            int n1 = a / i, m1 = a % i, n2 = b / i, m2 = b % i;
            if (!on[n1][m1] || !on[n2][m2]) continue;
#if REGIME == 1
            if (P[n1][m1] == P[n2][m2]) { merged = true; continue; }
#endif
            assume(mabs(P[n1][m1] - P[n2][m2]) >= 1e-8);
        }
    if (merged) reach("poles_merged");
    if (npairs >= 2) reach("two_or_more_terms");
    if (npairs == 0) reach("no_term");

    double gre = 0, gim = 0;
    for (int n = 0; n < o; ++n)
        for (int m = 0; m < i; ++m) {
            if (!on[n][m]) continue;
            // R / (x - P + i y) = R (x - P - i y) / ((x-P)^2 + y^2)
            double dx = x - P[n][m];
            double den = dx * dx + y * y;
            gre += R[n][m] * dx / den;
            gim += -R[n][m] * y / den;
        }
    ComplexType g = G(ComplexType(x, y));
    record("g.re", g.real()); record("gre", gre); record("g.im", g.imag()); record("gim", gim); record_int("nterms", (long)G.Terms.size());
    check_eq(g.real(), gre, "G_part(z).re == Lehmann sum");
    check_eq(g.imag(), gim, "G_part(z).im == Lehmann sum");
#endif
}
