// Unit harness h_gfterm  (C11, C01b; susceptibility terms for C14)
// Real code: GreensFunctionPart::Term::operator()(z), operator()(tau,beta), operator+=; SusceptibilityPart::Term likewise.
// exp is the uninterpreted E with E>0, E(0)=1 and the explicitly listed functional-equation instances
//   E(beta P) E(-beta P) = 1,  E((beta-tau)P) E(-beta P) = E(-tau P)
// Obligations (fermionic term R/(z-P)):
//   value(z) == R/(z-P) (textbook complex quotient);   conj(value(z)) == conj(R)/(conj z - P);
//   value(tau) == -R E(-tau P)/(1 + E(-beta P)) on BOTH branches (Pole > 0 and Pole <= 0);
//   value(0) + value(beta) == -R;    R >= 0  ==>  value(tau) <= 0;    Im value(i w) has the sign of -R for w > 0;
//   floating-point range: no exp argument above 709 for any beta > 0, tau in [0,beta], pole (no overflow at low temperature).
// Bosonic term: value(z) == -R/(z-P);  value(tau) == R E(-tau P)/(1 - E(-beta P));  value(0) - value(beta) == R.
#include "verif.h"
#include "pomerol/GreensFunctionPart.h"
#include "pomerol/SusceptibilityPart.h"
#include <cmath>
using namespace Pomerol;
using namespace verif;

extern "C" void h_main() {
    double Rr = sym_real("Rre"), Ri = sym_real("Rim"), P = sym_real("P");
    double x = sym_real("zre"), y = sym_real("zim");
    double beta = sym_real("beta"), tau = sym_real("tau");
    assume(beta > 0); assume(tau >= 0); assume(tau <= beta);
    // ---------------------------------------------------------------- fermionic term
    {
        GreensFunctionPart::Term t(ComplexType(Rr, Ri), P);
        assume(y != 0);
        ComplexType v = t(ComplexType(x, y));
        double dx = x - P, den = dx * dx + y * y;
        check_eq(v.real(), (Rr * dx + Ri * y) / den, "Re R/(z-P)");
        check_eq(v.imag(), (Ri * dx - Rr * y) / den, "Im R/(z-P)");
        GreensFunctionPart::Term tc(ComplexType(Rr, -Ri), P);
        ComplexType vc = tc(ComplexType(x, -y));
        check_eq(vc.real(), v.real(), "conj symmetry (real part)");
        check_eq(vc.imag(), -v.imag(), "conj symmetry (imaginary part)");
        // imaginary axis, real non-negative residue
        GreensFunctionPart::Term tp(ComplexType(Rr, 0), P);
        ComplexType vi = tp(ComplexType(0, y));
        if (Rr > 0 && y > 0) { check(vi.imag() < 0, "Im G_term(i w) < 0 for w > 0, R > 0"); reach("positive_residue"); }
        // imaginary time
        double ebp = __v_exp_lemma_inv(beta * P);                  // E(bP) E(-bP) = 1
        double etp = __v_exp_lemma_add((beta - tau) * P, -beta * P);   // E((b-t)P) E(-bP) = E(-tP) ... returns E(-tP)
        (void)ebp;
        __v_exp_scope_begin();
        ComplexType g = tp(tau, beta);
        ComplexType g0 = tp(0.0, beta), gb = tp(beta, beta);
        // floating-point range (C11 is quantified over large beta): whatever beta, tau in [0,beta] and the pole are, the term never hands
        // exp an argument that can overflow (the implementation picks the branch by the sign of the pole for exactly this reason)
        __v_check_exp_no_overflow("fermionic term in imaginary time");
        double refv = -Rr * etp / (1 + std::exp(-beta * P));
        check_eq(g.real(), refv, "G_term(tau) == -R E(-tau P)/(1 + E(-beta P)) on both branches");
        check(g.imag() == 0, "real residue gives a real imaginary-time value");
        if (P > 0) reach("positive_pole_branch"); else reach("non_positive_pole_branch");
        if (Rr >= 0) check(g.real() <= 0, "R >= 0 ==> G_term(tau) <= 0");
        check_eq(g0.real() + gb.real(), -Rr, "G_term(0+) + G_term(beta-) == -R");
    }
    // ---------------------------------------------------------------- bosonic term
    {
        SusceptibilityPart::Term t(ComplexType(Rr, Ri), P);
        ComplexType v = t(ComplexType(x, y));
        double dx = x - P, den = dx * dx + y * y;
        check_eq(v.real(), -(Rr * dx + Ri * y) / den, "bosonic Re -R/(z-P)");
        check_eq(v.imag(), -(Ri * dx - Rr * y) / den, "bosonic Im -R/(z-P)");
        if (P >= 1e-8 || P <= -1e-8) {     // terms of the list never have |P| < 1e-8 (zero poles are collected separately)
            SusceptibilityPart::Term tp(ComplexType(Rr, 0), P);
            double etp = __v_exp_lemma_add((beta - tau) * P, -beta * P);
            __v_exp_lemma_inv(beta * P);
            double ebm = std::exp(-beta * P);
            assume(ebm != 1);                 // E(-beta P) = 1 only for P = 0 (not derivable for an uninterpreted E)
            assume(std::exp(beta * P) != 1);
            __v_exp_scope_begin();
            ComplexType g = tp(tau, beta);
            ComplexType g0 = tp(0.0, beta), gb = tp(beta, beta);
            __v_check_exp_no_overflow("bosonic term in imaginary time");
            check_eq(g.real(), Rr * etp / (1 - ebm), "chi_term(tau) == R E(-tau P)/(1 - E(-beta P)) on both branches");
            check_eq(g0.real() - gb.real(), Rr, "chi_term(0) - chi_term(beta) == R");
            reach("bosonic_tau");
        }
    }
    reach("done");
}
