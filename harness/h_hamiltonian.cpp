// Unit harness h_hamiltonian  (C03c)
// Real code: Hamiltonian::computeGroundEnergy, getGroundEnergy, getEigenValues, getEigenValue(state), getPart;
//            HamiltonianPart::getMinimumEigenvalue / getEigenValue(s); StatesClassification getters.
// Eigenvalues of every block are symbolic reals (pipeline.h); obligations: the ground energy is <= every eigenvalue and is
// one of them; getEigenValues() is the concatenation in block order; getEigenValue(state) is the entry stored for the
// state's block and inner position.
#include "pipeline.h"
using namespace Pomerol;
using namespace verif;

extern "C" void h_main() {
    pipeln::Model m;
    m.inject(false);
    double E0 = m.H->getGroundEnergy();
    bool attained = false; int total = 0;
    for (int b = 0; b < m.NB; ++b)
        for (int i = 0; i < m.bsize(b); ++i) {
            double e = m.H->getPart(BlockNumber(b)).getEigenValue(i);
            check(E0 <= e, "ground energy <= every eigenvalue");
            if (E0 == e) attained = true;
            ++total;
        }
    check(attained, "ground energy is one of the eigenvalues");
    check(total == (1 << m.M), "blocks hold 2^N eigenvalues");
    RealVectorType all = m.H->getEigenValues();
    check(all.size() == total, "getEigenValues has 2^N entries");
    int k = 0;
    for (int b = 0; b < m.NB; ++b)
        for (int i = 0; i < m.bsize(b); ++i, ++k)
            check(all(k) == m.H->parts[b]->Eigenvalues(i), "getEigenValues is the concatenation in block order");
    for (unsigned s = 0; s < (1u << m.M); ++s) {
        int b = (int)m.S->getBlockNumber((QuantumState)s);
        InnerQuantumState in = m.S->getInnerState((QuantumState)s);
        check(m.H->getEigenValue(s) == m.H->parts[b]->Eigenvalues(in), "getEigenValue(state) is the entry of its block and position");
    }
    record("E0", E0);
    reach("done");
}
