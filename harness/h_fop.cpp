// Unit harness h_fop  (C10, C09 (ensemble average), C08)
// Real code: Creation/Annihilation/QuadraticOperator::prepare, FieldOperator::compute, FieldOperatorPart::compute (Eigen dense
//   product, sparseView, prune, row-major -> column-major copy), FieldOperatorContainer::prepareAll/computeAll (adjoint copies),
//   EnsembleAverage::prepare/compute, getters.
// Eigenvector matrices of the blocks are SYMBOLIC (pipeline.h; 1x1 blocks have U = 1).  Reference operator matrices O_lk
// come from an independent Jordan-Wigner application.
// Obligations: for every part and all (n,m): | stored(n,m) - sum_{l,k} U_to[l,n] O_lk U_from[k,m] | <= 1e-8 (absent entry = 0;
//   stated on the observable matrix because Eigen's effective pruning threshold is far below the documented tolerance);
//   row-major and column-major copies agree; stored matrices satisfy the sparse representation invariant (inner indices
//   strictly increasing, in range) that the Lehmann-sum units assume; PATH 1: the annihilation parts produced by the container
//   are the adjoints of the creation parts; <c+_i c_j> == sum_{diagonal blocks} sum_n A[n,n] w[n].
#include "pipeline.h"
#include "pomerol/FieldOperatorContainer.h"
#include "pomerol/EnsembleAverage.h"
using namespace Pomerol;
using namespace verif;
#ifndef PATH
#define PATH 0
#endif
static double mabs(double v) { return v < 0 ? -v : v; }

struct RStr { int n; bool cr[2]; int mode[2]; };
static bool ref_apply(const RStr& t, unsigned ket, unsigned& bra, int& sign) {
    unsigned s = ket; sign = 1;
    for (int i = t.n - 1; i >= 0; --i) {
        int m = t.mode[i]; bool occ = (s >> m) & 1;
        if (t.cr[i] == occ) return false;
        for (int j = 0; j < m; ++j) if ((s >> j) & 1) sign = -sign;
        s ^= (1u << m);
    }
    bra = s; return true;
}
static pipeln::Model* M_;

template <class SM> static double coeff(const SM& m, int r, int c) { return m.coeff(r, c); }

template <class SM> static void check_invariant(const SM& m) {
    bool ok = m.isCompressed() || true;
    const int outer = (int)m.outerSize(), inner = (int)m.innerSize();
    for (int o = 0; o < outer; ++o) {
        int prev = -1;
        for (typename SM::InnerIterator it(m, o); it; ++it) {
            int i = (int)it.index();
            if (!(i > prev && i < inner)) ok = false;
            prev = i;
        }
    }
    check(ok, "stored sparse matrix: inner indices strictly increasing and in range");
}

// compare one computed part with the reference rotation
static void check_part(FieldOperatorPart& p, const RStr& op, const char* what) {
    pipeln::Model& m = *M_;
    int from = (int)p.getRightIndex(), to = (int)p.getLeftIndex();
    const MatrixType& Uf = m.H->parts[from]->H; const MatrixType& Ut = m.H->parts[to]->H;
    int nf = m.bsize(from), nt = m.bsize(to);
    const RowMajorMatrixType& R = p.getRowMajorValue(); const ColMajorMatrixType& C = p.getColMajorValue();
    check((int)R.rows() == nt && (int)R.cols() == nf && (int)C.rows() == nt && (int)C.cols() == nf, "part has the dimensions of its blocks");
    check_invariant(R); check_invariant(C);
    for (int n = 0; n < nt; ++n)
        for (int mm = 0; mm < nf; ++mm) {
            double refv = 0;
            for (int k = 0; k < nf; ++k) {
                unsigned ket = (unsigned)m.S->getFockState(BlockNumber(from), k).to_ulong(), bra; int sg;
                if (!ref_apply(op, ket, bra, sg)) continue;
                if ((int)m.S->getBlockNumber((QuantumState)bra) != to) continue;
                int l = (int)m.S->getInnerState((QuantumState)bra);
                refv += Ut(l, n) * sg * Uf(k, mm);
            }
            check(mabs(coeff(R, n, mm) - refv) <= 1e-8, what);
            check(coeff(R, n, mm) == coeff(C, n, mm), "row-major and column-major copies agree");
        }
}

// completeness: every block that the operator does not annihilate must be represented by a part with the right target
static void check_complete(const FieldOperator& F, const RStr& op) {
    pipeln::Model& m = *M_;
    for (int R = 0; R < m.NB; ++R) {
        int target = -1;
        for (int k = 0; k < m.bsize(R); ++k) {
            unsigned ket = (unsigned)m.S->getFockState(BlockNumber(R), k).to_ulong(), bra; int sg;
            if (ref_apply(op, ket, bra, sg)) { target = (int)m.S->getBlockNumber((QuantumState)bra); break; }
        }
        check((int)F.getLeftIndex(BlockNumber(R)) == target, "operator has a part for every block it does not annihilate");
        if (target >= 0) {      // the part registered for this block must be built on the eigen-data of exactly these two blocks
            FieldOperatorPart& pp = F.getPartFromRightIndex(BlockNumber(R));
            check((int)pp.getRightIndex() == R && (int)pp.getLeftIndex() == target, "the part listed for a block pair is built from the Hamiltonian parts of that pair");
            if (target != R) reach("block_changing_part");
        }
    }
}

#ifndef VECS
#define VECS 1
#endif
extern "C" void h_main() {
    pipeln::Model m; M_ = &m;
    m.inject(VECS != 0);
    const int Mn = m.M;
#if PATH == 0
    // which operator this job looks at is a split input, so that the pruning forks of different operators do not multiply
    const int sel = (int)concretize(sym_int("op", 0, Mn + Mn * Mn - 1));
    for (int i = 0; i < Mn; ++i) {
        if (sel != i) continue;
        CreationOperator cd(*m.IC, *m.S, *m.H, i); cd.prepare(); cd.compute();
        AnnihilationOperator c(*m.IC, *m.S, *m.H, i); c.prepare(); c.compute();
        RStr scd = {1, {true, false}, {i, 0}}, sc = {1, {false, false}, {i, 0}};
        check_complete(cd, scd); check_complete(c, sc);
        const std::vector<FieldOperatorPart*>& pcd = cd.getParts();
        for (size_t q = 0; q < pcd.size(); ++q) check_part(*pcd[q], scd, "stored c+_i block == U_to^T (c+_i) U_from");
        const std::vector<FieldOperatorPart*>& pc = c.getParts();
        for (size_t q = 0; q < pc.size(); ++q) check_part(*pc[q], sc, "stored c_i block == U_to^T (c_i) U_from");
        if (pcd.size()) reach("creation_parts");
    }
    for (int i = 0; i < Mn; ++i) for (int j = 0; j < Mn; ++j) {
        if (sel != Mn + i * Mn + j) continue;
        QuadraticOperator q(*m.IC, *m.S, *m.H, i, j); q.prepare(); q.compute();
        RStr s = {2, {true, false}, {i, j}};
        check_complete(q, s);
        const std::vector<FieldOperatorPart*>& pq = q.getParts();
        for (size_t k = 0; k < pq.size(); ++k) check_part(*pq[k], s, "stored c+_i c_j block == U_to^T (c+_i c_j) U_from");
        // ensemble average with symbolic weights
        {
            double beta = 1.0;
            DensityMatrix rho(*m.S, *m.H, beta); rho.prepare();
            for (int b = 0; b < m.NB; ++b) for (int n = 0; n < m.bsize(b); ++n) { double w = sym_real(pre::nm("w", b, n)); assume(w >= 0); rho.parts[b]->weights(n) = w; }
            rho.Status = ComputableObject::Computed;
            EnsembleAverage EA(*m.S, *m.H, q, rho); EA.prepare();
            double refv = 0;
            for (size_t k = 0; k < pq.size(); ++k) {
                if ((int)pq[k]->getLeftIndex() != (int)pq[k]->getRightIndex()) continue;
                int b = (int)pq[k]->getLeftIndex();
                for (int n = 0; n < m.bsize(b); ++n) refv += pq[k]->getRowMajorValue().coeff(n, n) * rho.parts[b]->weights(n);
            }
            check_eq(EA.getResult().real(), refv, "<c+_i c_j> == sum over diagonal blocks of sum_n A[n,n] w[n]");
            check(EA.getResult().imag() == 0, "<c+_i c_j> is real in the real build");
            reach("ensemble_average");
        }
    }
#else
    FieldOperatorContainer ops(*m.IC, *m.S, *m.H);
    ops.prepareAll(); ops.computeAll();
    for (int i = 0; i < Mn; ++i) {
        const CreationOperator& cd = ops.getCreationOperator(i);
        const AnnihilationOperator& c = ops.getAnnihilationOperator(i);
        RStr scd = {1, {true, false}, {i, 0}}, sc = {1, {false, false}, {i, 0}};
        const std::vector<FieldOperatorPart*>& pcd = const_cast<CreationOperator&>(cd).getParts();
        const std::vector<FieldOperatorPart*>& pc = const_cast<AnnihilationOperator&>(c).getParts();
        check_complete(cd, scd); check_complete(c, sc);
        check(pcd.size() == pc.size(), "container: as many annihilation parts as creation parts");
        for (size_t q = 0; q < pcd.size(); ++q) check_part(*pcd[q], scd, "container: stored c+_i block == U_to^T (c+_i) U_from");
        for (size_t q = 0; q < pc.size(); ++q) {
            check_part(*pc[q], sc, "container: stored c_i block == U_to^T (c_i) U_from");
            // adjoint of the creation part acting between the same blocks
            FieldOperatorPart& cdp = cd.getPartFromLeftIndex(pc[q]->getRightIndex());
            check((int)cdp.getRightIndex() == (int)pc[q]->getLeftIndex(), "container: c part L<-R pairs with c+ part R<-L");
            int nt = m.bsize((int)pc[q]->getLeftIndex()), nf = m.bsize((int)pc[q]->getRightIndex());
            for (int n = 0; n < nt; ++n) for (int k = 0; k < nf; ++k)
                check(pc[q]->getRowMajorValue().coeff(n, k) == cdp.getRowMajorValue().coeff(k, n), "container: c == (c+)^T entrywise");
        }
        if (pc.size()) reach("annihilation_parts");
    }
#endif
    reach("done");
}
