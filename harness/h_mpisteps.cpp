// Unit harness h_mpisteps  (C06, C13 bulk computation)
// Real code, executed by NRANKS simulated ranks (model/mpi_multi.h), each rank with its OWN objects as in a real MPI run:
//   the whole public workflow of a Hubbard atom (all blocks are 1x1, so no iterative eigen-solver is involved):
//   Lattice ... StatesClassification, Hamiltonian::prepare(comm) / compute(comm) (mpi_skel dispatch + owner broadcasts),
//   DensityMatrix, FieldOperatorContainer, TwoParticleGFContainer::prepareAll / computeAll(clear, freqs, comm, split)
//   (TwoParticleGF::compute: dispatch, reduce to root, broadcast of term lists; computeAll_split: communicator split by colour,
//   per-colour computation, broadcast from the colour roots).
// STEP 0: only the Hamiltonian steps    STEP 1: two-particle container, unsplit     STEP 2: two-particle container, split
// All numbers are concrete (unit option concrete: exp is evaluated numerically); the nondeterminism is the delivery order of
// the dispatcher's messages (engine forks) and the number NCOMP of two-particle components.
// Obligations for every schedule: no deadlock / all ranks finish; after Hamiltonian::compute every rank holds the same
// eigenvalues and eigenvectors as a local serial computation; the frequency table returned for every listed component equals the
// serial reference on the rank(s) the interface returns it on (split: every rank; unsplit: rank 0 of the communicator), and with
// clearTerms == false every listed component can be evaluated on EVERY rank and gives the reference value.
#ifdef VERIF_NATIVE
#define VERIF_NO_MAIN      /* native replay: the same workflow under real MPI (mpiexec -np NRANKS), see the end of this file */
#endif
#include "verif.h"
#ifndef VERIF_NATIVE
#ifndef VM_FREE_CHOICES
#define VM_FREE_CHOICES 3
#endif
#include "../model/mpi_multi.h"
#endif
#include "pomerol/Lattice.h"
#include "pomerol/LatticePresets.h"
#include "pomerol/IndexClassification.h"
#include "pomerol/IndexHamiltonian.h"
#include "pomerol/Symmetrizer.h"
#include "pomerol/StatesClassification.h"
#include "pomerol/Hamiltonian.h"
#include "pomerol/DensityMatrix.h"
#include "pomerol/FieldOperatorContainer.h"
#include "pomerol/TwoParticleGFContainer.h"

#ifndef NRANKS
#define NRANKS 2
#endif
#ifndef STEP
#define STEP 0
#endif
#ifndef NCOMP
#define NCOMP 1
#endif
#ifndef CLEAR
#define CLEAR false
#endif
using namespace Pomerol;
using namespace verif;
static double mabs(double v) { return v < 0 ? -v : v; }
static bool close(ComplexType a, ComplexType b) { return mabs(a.real() - b.real()) <= 1e-9 * (1 + mabs(b.real())) && mabs(a.imag() - b.imag()) <= 1e-9 * (1 + mabs(b.imag())); }

static int ok_rank[8];
#ifndef VANISH
#define VANISH 0
#endif
#if VANISH
// (0,0,1,1) has no contributing block sequence at all ("vanishing" component: no parts)
static const IndexCombination4 COMPS[3] = {IndexCombination4(0, 0, 1, 1), IndexCombination4(0, 1, 0, 1), IndexCombination4(1, 1, 1, 1)};
#else
static const IndexCombination4 COMPS[3] = {IndexCombination4(0, 0, 0, 0), IndexCombination4(0, 1, 0, 1), IndexCombination4(1, 1, 1, 1)};
#endif

static void rank_main(long r) {
    boost::mpi::communicator world;
    Lattice L;
    L.addSite("A", 1, 2);
    LatticePresets::addCoulombS(&L, "A", 1.0, -0.4);
    LatticePresets::addMagnetization(&L, "A", 0.3);
    IndexClassification IC(L.getSiteMap()); IC.prepare(false);
    IndexHamiltonian HS(&L, IC); HS.prepare();
    Symmetrizer Symm(IC, HS); Symm.compute(false);
    StatesClassification S(IC, Symm); S.compute();
    Hamiltonian H(IC, HS, S);
    H.prepare(world);
    H.compute(world);
    // ---- every rank holds the eigen-data of a local serial computation
    for (int b = 0; b < (int)S.NumberOfBlocks(); ++b) {
        HamiltonianPart ref(IC, HS, S, BlockNumber(b)); ref.prepare(); ref.compute();
        const HamiltonianPart& p = H.getPart(BlockNumber(b));
        bool same = p.getSize() == ref.getSize();
        for (int i = 0; same && i < (int)ref.getSize(); ++i) {
            if (p.getEigenValue(i) != ref.getEigenValue(i)) same = false;
            for (int j = 0; j < (int)ref.getSize(); ++j) if (p.getMatrixElement((InnerQuantumState)i, (InnerQuantumState)j) != ref.getMatrixElement((InnerQuantumState)i, (InnerQuantumState)j)) same = false;
        }
        check(same, "after Hamiltonian::compute every rank holds the eigenvalues and eigenvectors of every block");
    }
    check(H.getStatus() == ComputableObject::Computed, "Hamiltonian is Computed on every rank");
#if STEP >= 1
    const double beta = 2.0;
    DensityMatrix rho(S, H, beta); rho.prepare(); rho.compute();
    FieldOperatorContainer Ops(IC, S, H); Ops.prepareAll(); Ops.computeAll();
    std::set<IndexCombination4> wanted;
    for (int k = 0; k < NCOMP; ++k) wanted.insert(COMPS[k]);
    std::vector<boost::tuple<ComplexType, ComplexType, ComplexType> > freqs;
    const ComplexType sp = I * M_PI / beta;
    freqs.push_back(boost::make_tuple(sp * 1.0, sp * 3.0, sp * (-1.0)));
    freqs.push_back(boost::make_tuple(sp * 1.0, sp * (-1.0), sp * 1.0));
    // serial reference on a private one-rank communicator
    boost::mpi::communicator self = world.split((int)r);
    TwoParticleGFContainer Ref(IC, S, H, rho, Ops);
    Ref.prepareAll(wanted);
    std::map<IndexCombination4, std::vector<ComplexType> > refdata = Ref.computeAll(false, freqs, self, false);
    // distributed computation
    TwoParticleGFContainer Chi(IC, S, H, rho, Ops);
    Chi.prepareAll(wanted);
    std::map<IndexCombination4, std::vector<ComplexType> > data = Chi.computeAll(CLEAR, freqs, world, STEP == 2);
    for (int k = 0; k < NCOMP; ++k) {
        const IndexCombination4& q = COMPS[k];
        bool table_expected_here = (STEP == 2) || world.rank() == 0;
        if (table_expected_here) {
            std::map<IndexCombination4, std::vector<ComplexType> >::const_iterator it = data.find(q);
            bool good = it != data.end() && it->second.size() == freqs.size();
            for (size_t w = 0; good && w < freqs.size(); ++w) if (!close(it->second[w], refdata[q][w])) good = false;
            check(good, "frequency table of every listed component equals the serial reference");
        }
        if (!CLEAR) {
            bool threw = false; ComplexType v(0, 0);
            try { v = Chi(q)(0, 1, -1); } catch (std::exception&) { threw = true; }
            check(!threw, "with the terms kept, every listed component can be evaluated on every rank");
            if (!threw) check(close(v, Ref(q)(0, 1, -1)), "on-demand value on every rank equals the serial reference");
        }
    }
#endif
    ok_rank[r] = 1;
}

#ifndef VERIF_NATIVE
extern "C" void h_main() {
    vm::init(NRANKS);
    int outcome = vm::run_all(rank_main, 4000);
    check(outcome != 0, "no deadlock in the distributed steps");
    check(outcome != -1, "all ranks finish within the scheduler's step bound");
    if (outcome != 1) return;
    for (int r = 0; r < NRANKS; ++r) check(ok_rank[r] == 1, "every rank ran to the end of the workflow");
    reach("done");
}
#else
#include <signal.h>
#include <unistd.h>
static void on_alarm(int) { std::printf("FAILED no deadlock in the distributed steps\n"); std::fflush(stdout); _exit(3); }
int main(int argc, char** argv) {
    boost::mpi::environment env(argc, argv);
    boost::mpi::communicator world;
    signal(SIGALRM, on_alarm); alarm(60);
    rank_main(world.rank());
    std::fflush(stdout);
    return verif_native::st().failed ? 3 : 0;
}
#endif
