// Unit harness h_lattice  (C20)
//
// Real code driven: Lattice::addSite/addTerm/getSite/getSiteMap/getTermStorage/copy constructor, TermStorage::addTerm /
//   getTerms / getMaxTermOrder, Lattice::Term constructors, Term::Presets::Spinflip/PairHopping, LatticePresets::add*
//   (argument checks; exceptions are executed symbolically).
// Lattice: site "A" (orbA x spnA) and site "B" (orbB x spnB), sizes symbolic in [1,2]; "C" is never added.
// SCEN 1: addTerm with a symbolic term (order 2 or 4; per factor label in {A,B,C}, orbital and spin in [0,2]; symbolic
//         amplitude incl. exactly 0): throws exWrongLabel IFF some factor is invalid, and then the lattice (site map and
//         term storage) is unchanged; valid and zero -> no throw, unchanged; valid and non-zero -> stored under its order
//         with identical fields, getMaxTermOrder updated.  Followed by a second (valid) term and a copy of the lattice.
// SCEN 2: getSite for known / unknown labels.
// SCEN 3: every preset with symbolic arguments: throws for the argument combinations its documentation excludes and never
//         leaves a term in the storage that addTerm would have rejected.
#include "verif.h"
#include "pomerol/Lattice.h"
#include "pomerol/LatticePresets.h"

#ifndef SCEN
#define SCEN 1
#endif

using namespace Pomerol;
using namespace verif;

static const char* const LAB[3] = {"A", "B", "C"};
static int orbsz[3], spnsz[3];   // sizes of A, B; C unknown (0)

static long pick(const char* n, long lo, long hi) { return concretize(sym_int(n, lo, hi)); }

struct Snap { int nsites; unsigned maxorder; int count[8]; const Lattice::Term* first[8]; const Lattice::Term* last[8]; };
static Snap snap(const Lattice& L) {
    Snap s;
    s.nsites = (int)L.getSiteMap().size();
    s.maxorder = L.getTermStorage().getMaxTermOrder();
    for (unsigned n = 0; n < 8; ++n) {
        const Lattice::TermList& tl = L.getTermStorage().getTerms(n);
        s.count[n] = (int)tl.size();
        s.first[n] = tl.empty() ? 0 : tl.front();
        s.last[n] = tl.empty() ? 0 : tl.back();
    }
    return s;
}
static bool same(const Snap& a, const Snap& b) {
    if (a.nsites != b.nsites || a.maxorder != b.maxorder) return false;
    for (int n = 0; n < 8; ++n) if (a.count[n] != b.count[n] || a.first[n] != b.first[n] || a.last[n] != b.last[n]) return false;
    return true;
}
static bool factor_valid(int lab, int orb, int spn) { return lab < 2 && orb < orbsz[lab] && spn < spnsz[lab]; }
// every stored term refers to existing sites / orbitals / spins (what addTerm enforces)
static bool storage_valid(const Lattice& L) {
    for (unsigned n = 0; n < 8; ++n) {
        const Lattice::TermList& tl = L.getTermStorage().getTerms(n);
        for (Lattice::TermList::const_iterator it = tl.begin(); it != tl.end(); ++it) {
            const Lattice::Term& T = **it;
            for (unsigned i = 0; i < T.getOrder(); ++i) {
                int lab = -1;
                for (int q = 0; q < 2; ++q) if (T.SiteLabels[i] == LAB[q]) lab = q;
                if (lab < 0 || T.Orbitals[i] >= orbsz[lab] || T.Spins[i] >= spnsz[lab]) return false;
            }
        }
    }
    return true;
}

extern "C" void h_main() {
    Lattice L;
    orbsz[0] = (int)pick("orbA", 1, 2); spnsz[0] = (int)pick("spnA", 1, 2);
    orbsz[1] = (int)pick("orbB", 1, 2); spnsz[1] = (int)pick("spnB", 1, 2);
    orbsz[2] = 0; spnsz[2] = 0;
    L.addSite(LAB[0], orbsz[0], spnsz[0]);
    L.addSite(new Lattice::Site(LAB[1], orbsz[1], spnsz[1]));
    check(L.getSiteMap().size() == 2, "two sites added");

#if SCEN == 1
    const int N = (int)pick("order", 1, 2) * 2;
    bool seq[4]; std::string labs[4]; unsigned short orbs[4], spins[4]; int li[4];
    static const char* const ln[4] = {"l0", "l1", "l2", "l3"}; static const char* const on[4] = {"o0", "o1", "o2", "o3"};
    static const char* const sn[4] = {"s0", "s1", "s2", "s3"};
    bool valid = true;
    for (int i = 0; i < N; ++i) {
        // the first two factors are fully symbolic; further factors (order 4) repeat them with a symbolic twist
        // labels are concrete choices (forked); orbitals and spins are SYMBOLIC over the whole unsigned short range
        if (i < 2) li[i] = (int)pick(ln[i], 0, 2); else li[i] = li[i - 2];
        orbs[i] = (unsigned short)sym_int(on[i], 0, 65535); spins[i] = (unsigned short)sym_int(sn[i], 0, 65535);
        labs[i] = LAB[li[i]]; seq[i] = (i % 2 == 0);
        if (!factor_valid(li[i], orbs[i], spins[i])) valid = false;
    }
    double v = sym_real("value");
    Lattice::Term T(N, seq, v, labs, orbs, spins);
    Snap before = snap(L);
    bool threw = false, other = false;
    try { L.addTerm(&T); } catch (Lattice::exWrongLabel&) { threw = true; } catch (...) { other = true; }
    Snap after = snap(L);
    check(!other, "addTerm throws nothing but exWrongLabel");
    check(threw == !valid, "addTerm throws exWrongLabel iff a factor refers to an unknown site/orbital/spin");
    if (!valid) { check(same(before, after), "a rejected term leaves the lattice unchanged"); reach("rejected"); }
    else if (v == 0) { check(same(before, after), "a zero-amplitude term is ignored"); reach("zero_ignored"); }
    else {
        reach("stored");
        check(after.count[N] == before.count[N] + 1, "accepted term is stored under its order");
        check(after.maxorder == (unsigned)N, "getMaxTermOrder updated");
        const Lattice::Term& S = *L.getTermStorage().getTerms(N).back();
        bool fields = S.getOrder() == (unsigned)N && S.Value == v;
        for (int i = 0; i < N; ++i) fields = fields && S.SiteLabels[i] == labs[i] && S.Orbitals[i] == orbs[i] && S.Spins[i] == spins[i] && S.OperatorSequence[i] == seq[i];
        check(fields, "stored term has identical fields");
        for (int n = 0; n < 8; ++n) if (n != N) check(after.count[n] == before.count[n], "other orders untouched");
    }
    check(L.getSiteMap().size() == 2, "site map still has exactly the added sites");
    // a copy defines the same model
    Lattice L2(L);
    Snap c = snap(L2);
    bool eq = c.nsites == after.nsites && c.maxorder == after.maxorder;
    for (int n = 0; n < 8; ++n) eq = eq && c.count[n] == after.count[n];
    check(eq, "copy-constructed lattice has the same sites and terms");
    check(L2.getSiteMap().find("A") != L2.getSiteMap().end() && L2.getSiteMap().find("C") == L2.getSiteMap().end(), "copy knows A and not C");
#elif SCEN == 2
    for (int q = 0; q < 2; ++q) {
        bool threw = false; const Lattice::Site* s = 0;
        try { s = &L.getSite(LAB[q]); } catch (Lattice::exWrongLabel&) { threw = true; }
        check(!threw, "getSite finds a site that was added");
        if (!threw) check(s->Label == LAB[q] && s->OrbitalSize == orbsz[q] && s->SpinSize == spnsz[q], "getSite returns the site added under that label");
    }
    {
        bool threw = false;
        try { L.getSite("C"); } catch (Lattice::exWrongLabel&) { threw = true; }
        check(threw, "getSite throws for an unknown label");
    }
    reach("lookups_done");
#elif SCEN == 3
    const int which = (int)pick("preset", 0, 8);
    const int l1 = (int)pick("l1", 0, 2), l2 = (int)pick("l2", 0, 2);
    double a = sym_real("amp");
    if (a != 0) { assume(a >= 1e-3 || a <= -1e-3); }
    bool threwLabel = false, threwIdx = false, other = false;
    int o1 = 0, o2 = 0, s1 = 0, s2 = 0;
    if (which >= 6) { o1 = (int)sym_int("o1", 0, 65535); o2 = (int)sym_int("o2", 0, 65535); s1 = (int)sym_int("s1", 0, 65535); s2 = (int)sym_int("s2", 0, 65535); }
    try {
        switch (which) {
            case 0: LatticePresets::addCoulombS(&L, LAB[l1], a, a); break;
            case 1: LatticePresets::addCoulombP(&L, LAB[l1], a, a, a, a); break;
            case 2: LatticePresets::addLevel(&L, LAB[l1], a); break;
            case 3: LatticePresets::addMagnetization(&L, LAB[l1], a); break;
            case 4: LatticePresets::addSzSz(&L, LAB[l1], LAB[l2], a); break;
            case 5: LatticePresets::addSS(&L, LAB[l1], LAB[l2], a); break;
            case 6: LatticePresets::addHopping(&L, LAB[l1], LAB[l2], a, o1, o2, s1, s2); break;
            case 7: LatticePresets::addHopping(&L, LAB[l1], LAB[l2], a, o1, o2); break;
            case 8: LatticePresets::addHopping(&L, LAB[l1], LAB[l2], a); break;
        }
    } catch (Lattice::exWrongLabel&) { threwLabel = true; } catch (Lattice::Term::Presets::exWrongIndices&) { threwIdx = true; } catch (...) { other = true; }
    check(!other, "presets throw only exWrongLabel / exWrongIndices");
    bool threw = threwLabel || threwIdx;
    bool unknown = (l1 == 2) || (which >= 4 && l2 == 2);
    bool must_throw = unknown;
    if (!unknown) {
        if (which == 1) must_throw = orbsz[l1] <= 1 || spnsz[l1] <= 1;
        if (which == 3) must_throw = spnsz[l1] != 2;
        if (which == 4 || which == 5) must_throw = spnsz[l1] != 2 || spnsz[l2] != 2 || orbsz[l1] != orbsz[l2];
        if (which == 6) must_throw = o1 >= orbsz[l1] || o2 >= orbsz[l2] || s1 >= spnsz[l1] || s2 >= spnsz[l2];
        if (which == 7) must_throw = o1 >= orbsz[l1] || o2 >= orbsz[l2] || spnsz[l1] != spnsz[l2];
        if (which == 8) must_throw = orbsz[l1] != orbsz[l2] || spnsz[l1] != spnsz[l2];
    }
    if (must_throw) { check(threw, "preset rejects the argument combination its documentation excludes"); reach("preset_rejected"); }
    else { check(!threw, "preset accepts a valid argument combination"); reach("preset_accepted"); }
    check(storage_valid(L), "no stored term refers to an unknown site, orbital or spin");
    check(L.getSiteMap().size() == 2, "site map still has exactly the added sites");
#elif SCEN == 4
    // term-level presets: symbolic orbitals and spins over the whole unsigned short range
    {
        int oa = (int)sym_int("to1", 0, 65535), ob = (int)sym_int("to2", 0, 65535), sa = (int)sym_int("ts1", 0, 65535), sb = (int)sym_int("ts2", 0, 65535);
        bool t1 = false, t2 = false;
        try { delete Lattice::Term::Presets::Spinflip("A", 1.0, oa, ob, sa, sb); } catch (Lattice::Term::Presets::exWrongIndices&) { t1 = true; }
        try { delete Lattice::Term::Presets::PairHopping("A", 1.0, oa, ob, sa, sb); } catch (Lattice::Term::Presets::exWrongIndices&) { t2 = true; }
        bool bad = (oa == ob) || (sa == sb);
        check(t1 == bad && t2 == bad, "Spinflip/PairHopping reject equal orbitals or equal spins");
    }
#endif
    reach("done");
}
