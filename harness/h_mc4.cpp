// Unit harness h_mc4  (C15, C17)
// Real code: MatsubaraContainer4<Src>::fill / operator() instantiated with a stub source whose value(n1,n2,n3) is an
// injective encoding of the frequency triple.  N (window size) is a concretised input, the query triple (n1,n2,n3) is
// SYMBOLIC in the box [-N-2, N+1]^3: the container must return value(n1,n2,n3) for hits and misses alike, and every index
// computation must stay inside the allocated tables (the engines' memory monitor checks each symbolic address).
#include "verif.h"
#include "pomerol/Misc.h"
#include "pomerol/MatsubaraContainers.h"
using namespace Pomerol;
using namespace verif;

struct StubSource {
    mutable long calls;
    StubSource() : calls(0) {}
    ComplexType value(long n1, long n2, long n3) const { ++calls; return ComplexType(double((n1 + 64) * 16384 + (n2 + 64) * 128 + (n3 + 64)), double(n1 - n3)); }
};

extern "C" void h_main() {
    const long N = concretize(sym_int("N", 0, NMAX));
    StubSource src;
    MatsubaraContainer4<StubSource> box;
    box.fill(&src, N);
    long expected_fill = 0;
    for (long W = -2 * N; W <= 2 * N - 2; ++W) { long s = 2 * N - (W + 1 < 0 ? -(W + 1) : W + 1); expected_fill += s * s; }
    check(src.calls == expected_fill, "fill evaluates the source once per stored element");
    check(box.getNumberOfMatsubaras() == N, "window size stored");
    long n1 = sym_int("n1", -N - 2, N + 1), n2 = sym_int("n2", -N - 2, N + 1), n3 = sym_int("n3", -N - 2, N + 1);
    src.calls = 0;
    ComplexType v = box(n1, n2, n3);
    ComplexType e = src.value(n1, n2, n3);
    check(v.real() == e.real() && v.imag() == e.imag(), "container(n1,n2,n3) == source.value(n1,n2,n3)");
    long W = n1 + n2; long n4 = n1 + n2 - n3;
    bool inside = N > 0 && n1 >= -N && n1 < N && n2 >= -N && n2 < N && n3 >= -N && n3 < N && n4 >= -N && n4 < N;
    if (src.calls == 1) reach("hit"); else reach("miss");
    check((src.calls == 1) == inside, "stored value is used exactly for triples whose four frequencies lie inside the window");
    if (N == 0) reach("empty_window");
    reach("done");
}
