// Unit harness h_symm  (C07, C08)
//
// Real code driven: Lattice/LatticePresets, IndexClassification, IndexHamiltonian::prepare, Symmetrizer::compute(bool),
//   Symmetrizer::compute(vector<Operator>), checkSymmetry (Operator::commutes), QuantumNumbers (boost::hash of the real
//   headers), StatesClassification::compute and all getters, FieldOperator::mapsTo, Creation/Annihilation/
//   QuadraticOperator::prepare (bimaps), Operator::actRight.
// Model family: lattice LAYOUT with a term family whose amplitudes are SYMBOLIC (each exactly 0 or |a| >= 1e-3): level,
//   spin-conserving hopping, spin-flip hopping, on-site U, pair creation + h.c.  The executor forks on the zero pattern
//   through the library's own comparisons, so Hamiltonians with and without N / S_z conservation are all covered.
// ANALYSIS 0: default  compute(false)      1: compute(true) (symmetries ignored)
//          2: user integrals of motion (IOMSET selects the candidates; see ioms())
// Obligations per path
//   (i)   the analysis completes without throwing;
//   (ii)  every Fock state lies in exactly one block and getFockState(getBlockNumber(s), getInnerState(s)) == s;
//   (iii) <a|H|b> == 0 for a, b in different blocks (for all amplitude values of the path);
//   (iv)  every c_i, c+_i, c+_i c_j maps all non-annihilated states of a block into ONE block, and the block bimap built
//         by the real prepare() holds exactly the (image block, block) pairs;
//   (v)   with symmetries ignored there is one block.
#include "verif.h"
#include "pomerol/Lattice.h"
#include "pomerol/LatticePresets.h"
#include "pomerol/IndexClassification.h"
#include "pomerol/IndexHamiltonian.h"
#include "pomerol/Symmetrizer.h"
#include "pomerol/StatesClassification.h"
#include "pomerol/Hamiltonian.h"
#include "pomerol/FieldOperator.h"

#ifndef LAYOUT
#define LAYOUT 0
#endif
#ifndef ANALYSIS
#define ANALYSIS 0
#endif
#ifndef IOMSET
#define IOMSET 0
#endif

using namespace Pomerol;
using namespace verif;
static double mabs(double v) { return v < 0 ? -v : v; }
// amplitude number k is exactly zero iff bit k of the (split) input "zmask" is set, otherwise symbolic with |a| in [1e-3, 1e3]
static long zmask = 0;
static double amp(const char* name, int k) {
    if ((zmask >> k) & 1) return 0;
    double a = sym_real(name);
    assume(mabs(a) >= 1e-3); assume(mabs(a) <= 1e3);
    return a;
}

// layouts: {orbitals, spins} of sites "A" and "B" (B absent when orbitals == 0)
static const int LAY[6][4] = {
    {1, 2, 0, 0},   // 0: one spin-1/2 site                      (2 modes)
    {1, 2, 1, 2},   // 1: two spin-1/2 sites                     (4 modes)
    {1, 1, 1, 2},   // 2: spinless site + spin-1/2 site          (3 modes)
    {1, 1, 1, 1},   // 3: two spinless sites                     (2 modes)
    {1, 3, 0, 0},   // 4: one site with three spin projections   (3 modes)
    {2, 1, 1, 2},   // 5: two-orbital spinless site + spin-1/2   (4 modes)
};

extern "C" void h_main() {
    Lattice L;
    const int oa = LAY[LAYOUT][0], sa = LAY[LAYOUT][1], ob = LAY[LAYOUT][2], sb = LAY[LAYOUT][3];
    L.addSite("A", oa, sa);
    if (ob) L.addSite("B", ob, sb);
    zmask = concretize(sym_int("zmask", 0, 31));
    double eps = amp("eps", 0), U = amp("U", 1), t = amp("t", 2), tf = amp("tf", 3), dl = amp("delta", 4);
    LatticePresets::addLevel(&L, "A", eps);
    if (sa >= 2) {   // on-site repulsion between the first two spin projections of orbital 0
        Lattice::Term* T = Lattice::Term::Presets::NupNdown("A", U, 0, 0, 0, 1);
        L.addTerm(T);
    }
    if (ob) {
        LatticePresets::addHopping(&L, "A", "B", t, 0, 0, 0, 0);                 // spin-conserving hopping (projection 0)
        if (sb >= 2) LatticePresets::addHopping(&L, "A", "B", tf, 0, 0, 0, 1);   // spin-changing hopping
    }
    {   // pair creation on the first two modes of site A / sites A,B  + h.c.
        bool seq1[2] = {true, true}, seq2[2] = {false, false};
        std::string labs[2]; unsigned short orbs[2] = {0, 0}, spins[2] = {0, 0};
        labs[0] = "A";
        if (sa >= 2) { labs[1] = "A"; spins[1] = 1; }
        else if (oa >= 2) { labs[1] = "A"; orbs[1] = 1; }
        else { labs[1] = "B"; }
        Lattice::Term T1(2, seq1, dl, labs, orbs, spins);
        std::string labsr[2] = {labs[1], labs[0]}; unsigned short orbsr[2] = {orbs[1], orbs[0]}, spinsr[2] = {spins[1], spins[0]};
        Lattice::Term T2(2, seq2, dl, labsr, orbsr, spinsr);
        L.addTerm(&T1); L.addTerm(&T2);
    }
    IndexClassification IC(L.getSiteMap());
    IC.prepare(false);
    const int M = (int)IC.getIndexSize();
    const unsigned D = 1u << M;
    IndexHamiltonian HS(&L, IC);
    HS.prepare();
    Symmetrizer Symm(IC, HS);
    bool threw = false;
    try {
#if ANALYSIS == 0
        Symm.compute(false);
#elif ANALYSIS == 1
        Symm.compute(true);
#else
        std::vector<Operator> ioms;
        Operator Ntot; for (int i = 0; i < M; ++i) Ntot += OperatorPresets::n(i);
        Operator one; one += 1.0;
#if IOMSET == 0       // N only
        ioms.push_back(Ntot);
#elif IOMSET == 1     // N_proj0 and N_rest separately (eigenvalue tuples are permutations of each other)
        { Operator a, b; for (int i = 0; i < M; ++i) { if (IC.getInfo(i).Spin == 0) a += OperatorPresets::n(i); else b += OperatorPresets::n(i); }
          ioms.push_back(a); if (!b.isEmpty()) ioms.push_back(b); }
#elif IOMSET == 2     // charge of site A only
        { Operator a; for (int i = 0; i < M; ++i) if (IC.getInfo(i).SiteLabel == "A") a += OperatorPresets::n(i); ioms.push_back(a); }
#elif IOMSET == 3     // non-linear: (N-1)^2
        { Operator q = (Ntot - one) * (Ntot - one); ioms.push_back(q); }
#elif IOMSET == 4     // non-linear: n_0 n_1
        ioms.push_back(OperatorPresets::n(0) * OperatorPresets::n(1));
#elif IOMSET == 5     // parity-like: N mod 2 expressed as (1 - prod (1 - 2 n_i))/2 is not diagonal-linear; use N and N^2 together
        ioms.push_back(Ntot); ioms.push_back(Ntot * Ntot);
#elif IOMSET == 6     // non-linear and NOT involving the low modes: double occupancy of the last two modes (commutes with H when they decouple)
        ioms.push_back(OperatorPresets::n(M - 2) * OperatorPresets::n(M - 1));
#elif IOMSET == 7     // N together with the non-linear candidate of set 6
        ioms.push_back(Ntot); ioms.push_back(OperatorPresets::n(M - 2) * OperatorPresets::n(M - 1));
#endif
        Symm.compute(ioms);
#endif
    } catch (...) { threw = true; }
    check(!threw, "symmetry analysis completes without error");
    if (threw) return;
    record_int("symmetries", (long)Symm.getOperations().size());
    if (Symm.getOperations().size() == 0) reach("no_symmetry_accepted");
    if (Symm.getOperations().size() >= 1) reach("symmetry_accepted");

    StatesClassification S(IC, Symm);
    S.compute();
    const int NB = (int)S.NumberOfBlocks();
    record_int("blocks", NB);
#if ANALYSIS == 1
    check(NB == 1, "ignored symmetries give one block");
#endif
    // (ii) partition and addressing
    int blk[16];
    unsigned total = 0;
    for (int b = 0; b < NB; ++b) total += (unsigned)S.getBlockSize(b);
    check(total == D, "block sizes add up to the number of Fock states");
    for (unsigned s = 0; s < D; ++s) {
        FockState fs(M, s);
        BlockNumber bn = S.getBlockNumber(fs);
        blk[s] = (int)bn;
        check((int)bn >= 0 && (int)bn < NB, "state has a valid block number");
        InnerQuantumState in = S.getInnerState(fs);
        check(in < S.getBlockSize(bn), "inner index inside the block");
        check(S.getFockState(bn, in) == fs, "getFockState(getBlockNumber(s), getInnerState(s)) == s");
        check(S.getBlockNumber((QuantumState)s) == bn && S.getInnerState((QuantumState)s) == in, "label-based getters agree");
    }
    // (iii) H is block diagonal
    {
        static double Hm[16][16];
        for (unsigned k = 0; k < D; ++k) for (unsigned b = 0; b < D; ++b) Hm[b][k] = 0;
        for (unsigned k = 0; k < D; ++k) {
            FockState ket(M, k);
            for (Operator::const_iterator it = HS.begin(); it != HS.end(); ++it) {
                boost::tuple<FockState, MelemType> r = Operator::actRight(it->first, ket);
                if (boost::get<0>(r).size() == 0) continue;
                Hm[boost::get<0>(r).to_ulong()][k] += boost::get<1>(r) * it->second;
            }
        }
        for (unsigned k = 0; k < D; ++k) for (unsigned b = 0; b < D; ++b)
            if (blk[b] != blk[k]) check(Hm[b][k] == 0, "no matrix element of H between different blocks");
    }
    // (iv) single-target property and bimaps.  Hamiltonian parts are only needed as reference targets of the operator
    // parts: they are created unprepared (HamiltonianPart::prepare is the subject of the C03 units).
    Hamiltonian H(IC, HS, S);
    H.parts.resize(NB);
    for (int b = 0; b < NB; ++b) H.parts[b].reset(new HamiltonianPart(IC, HS, S, b));
    for (int kind = 0; kind < 3; ++kind)
        for (int i = 0; i < M; ++i)
            for (int j = 0; j < (kind == 2 ? M : 1); ++j) {
                FieldOperator* F;
                if (kind == 0) F = new CreationOperator(IC, S, H, i);
                else if (kind == 1) F = new AnnihilationOperator(IC, S, H, i);
                else F = new QuadraticOperator(IC, S, H, i, j);
                int image[16];
                for (int b = 0; b < NB; ++b) image[b] = -1;
                bool single = true;
                for (unsigned s = 0; s < D; ++s) {
                    FockState ket(M, s);
                    std::map<FockState, MelemType> r = F->O->actRight(ket);
                    if (r.size() == 0) continue;
                    int tb = blk[r.begin()->first.to_ulong()];
                    if (image[blk[s]] == -1) image[blk[s]] = tb;
                    else if (image[blk[s]] != tb) single = false;
                }
                check(single, "operator maps every block into at most one block");
                if (!single) continue;
                if (kind == 0) static_cast<CreationOperator*>(F)->prepare();
                else if (kind == 1) static_cast<AnnihilationOperator*>(F)->prepare();
                else static_cast<QuadraticOperator*>(F)->prepare();
                const FieldOperator::BlocksBimap& bm = F->getBlockMapping();
                unsigned npairs = 0;
                for (int b = 0; b < NB; ++b) {
                    if (image[b] >= 0) ++npairs;
                    check((int)F->getLeftIndex(b) == image[b], "bimap: left block of a right block is the image block");
                    check((int)F->mapsTo(BlockNumber(b)) == image[b], "mapsTo == image block");
                }
                check(bm.size() == npairs, "bimap holds exactly the (image block, block) pairs");
            }
    reach("done");
}
