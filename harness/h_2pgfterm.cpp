// Unit harness h_2pgfterm  (C02a, C02d)
// Real code: TwoParticleGFPart::operator()(long,long,long) and (z1,z2,z3) (frequency permutation (z1,z2,-z3), Matsubara
//   spacing), NonResonantTerm::operator(), ResonantTerm::operator() (resonance decision |Diff| < tolerance), TermList sums.
// Pre-state: a computed part holding ONE term of kind TERM with symbolic coefficients and poles
//   TERM 0: non-resonant z2 term  C/((z1-P1)(z2-P2)(z3-P3))
//   TERM 1: non-resonant z4 term  C/((z1-P1)(z1+z2+z3-P1-P2-P3)(z3-P3))
//   TERM 2: (z1+z2)-resonant term (R d + N(1-d)/(z1+z2-P1-P2))/((z1-P1)(z3-P3)),  d = [ |z1+z2-P1-P2| < 1e-8 ]
//   TERM 3: (z2+z3)-resonant term (R d + N(1-d)/(z2+z3-P2-P3))/((z1-P1)(z3-P3)),  d = [ |z2+z3-P2-P3| < 1e-8 ]
// evaluated at concrete Matsubara numbers FREQ with symbolic beta: the value must equal the documented form at
// (z1,z2,z3) = permutation PERM of (w1, w2, -w3), w_k = i pi (2 n_k + 1)/beta.
#include "prestate.h"
#include "pomerol/TwoParticleGFPart.h"
#ifndef TERM
#define TERM 0
#endif
using namespace Pomerol;
using namespace verif;

extern "C" void h_main() {
    const int PERM = (int)concretize(sym_int("perm", 0, 5));
    double beta = sym_real("beta");
    assume(beta > 0);
    TwoParticleGFPart& X = pre::raw<TwoParticleGFPart>();
    new (static_cast<Thermal*>(&X)) Thermal(beta);
    typedef TwoParticleGFPart::NonResonantTerm NRT; typedef TwoParticleGFPart::ResonantTerm RT;
    new (&X.NonResonantTerms) TermList<NRT>(NRT::Compare(1e-8), NRT::IsNegligible(1e-16));
    new (&X.ResonantTerms) TermList<RT>(RT::Compare(1e-8), RT::IsNegligible(1e-16));
    new (&X.Permutation) Permutation3(permutations3[PERM]);
    X.ReduceResonanceTolerance = 1e-8;
    X.Status = ComputableObject::Computed;
    double Cr = sym_real("Cre"), Ci = sym_real("Cim"), Nr = sym_real("Nre"), Ni = sym_real("Nim");
    double P1 = sym_real("P1"), P2 = sym_real("P2"), P3 = sym_real("P3");
    ComplexType C(Cr, Ci), N(Nr, Ni);
    // (the term constructors are inline in the .cpp file: fill the fields of default-constructed terms)
#if TERM <= 1
    { NRT t; t.Coeff = C; t.Poles[0] = P1; t.Poles[1] = P2; t.Poles[2] = P3; t.isz4 = (TERM == 1); t.Weight = 1; X.NonResonantTerms.data.insert(t); }
#else
    { RT t; t.ResCoeff = C; t.NonResCoeff = N; t.Poles[0] = P1; t.Poles[1] = P2; t.Poles[2] = P3; t.isz1z2 = (TERM == 2); t.Weight = 1; X.ResonantTerms.data.insert(t); }
#endif
    static const long FR[5][3] = {{0, 1, -3}, {0, -1, 2}, {1, 0, 0}, {2, -3, 2}, {-2, 1, 1}};
    const long f = concretize(sym_int("freq", 0, 4));
    const long n1 = FR[f][0], n2 = FR[f][1], n3 = FR[f][2];
    const ComplexType sp = I * M_PI / beta;
    ComplexType w[3] = {sp * RealType(2 * n1 + 1), sp * RealType(2 * n2 + 1), -(sp * RealType(2 * n3 + 1))};
    const ComplexType z1 = w[permutations3[PERM].perm[0]], z2 = w[permutations3[PERM].perm[1]], z3 = w[permutations3[PERM].perm[2]];
    ComplexType ref;
#if TERM == 0
    ref = C / ((z1 - P1) * (z2 - P2) * (z3 - P3));
#elif TERM == 1
    ref = C / ((z1 - P1) * (z1 + z2 + z3 - P1 - P2 - P3) * (z3 - P3));
#else
#if TERM == 2
    ComplexType Diff = z1 + z2 - P1 - P2;
#else
    ComplexType Diff = z2 + z3 - P2 - P3;
#endif
    bool res = std::abs(Diff) < 1e-8;
    if (res) { ref = C / ((z1 - P1) * (z3 - P3)); reach("resonant_branch"); }
    else { ref = (N / Diff) / ((z1 - P1) * (z3 - P3)); reach("non_resonant_branch"); }
#endif
    ComplexType v = X(n1, n2, n3);
    record("v.re", v.real()); record("v.im", v.imag());
    check_eq(v.real(), ref.real(), "term value at Matsubara numbers == documented form (real part)");
    check_eq(v.imag(), ref.imag(), "term value at Matsubara numbers == documented form (imaginary part)");
    reach("done");
}
