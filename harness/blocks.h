// Pre-state builder for the world-stripe selectors: B blocks, a Hamiltonian and a density matrix whose parts are opaque
// placeholders (only their identity matters to the selectors), retained flags symbolic, and field operators whose block
// bimaps are ARBITRARY partial injections on {0..B-1} (symbolic, concretised by forking) inserted through the real
// boost::bimap API together with the part tables the real prepare() functions maintain.
#ifndef VERIF_BLOCKS_H
#define VERIF_BLOCKS_H
#include "prestate.h"
#include "pomerol/Hamiltonian.h"
#include "pomerol/DensityMatrix.h"
#include "pomerol/FieldOperator.h"

namespace blk {
using namespace Pomerol;
struct null_deleter { void operator()(void const*) const {} };

struct World {
    int B;
    Hamiltonian* H;
    DensityMatrix* DM;
    StatesClassification* S;
    bool retained[4];
    World(int B_, bool symbolic_retained) : B(B_) {
        S = &pre::raw<StatesClassification>();
        H = &pre::raw<Hamiltonian>();
        new (&H->parts) std::vector<boost::shared_ptr<HamiltonianPart> >();
        DM = &pre::raw<DensityMatrix>();
        new (static_cast<Thermal*>(DM)) Thermal(1.0);
        new (&DM->parts) std::vector<DensityMatrixPart*>();
        DM->Status = ComputableObject::Computed;
        long rmask = symbolic_retained ? verif::concretize(verif::sym_int("retained", 0, (1L << B) - 1)) : (1L << B) - 1;
        for (int b = 0; b < B; ++b) {
            HamiltonianPart* hp = &pre::raw<HamiltonianPart>();
            H->parts.push_back(boost::shared_ptr<HamiltonianPart>(hp, null_deleter()));
            DensityMatrixPart* dp = &pre::raw<DensityMatrixPart>();
            retained[b] = (rmask >> b) & 1;
            dp->retained = retained[b];
            DM->parts.push_back(dp);
        }
    }
};

// image[r] = left block that the operator maps right block r into, or -1; must be injective where defined
template <class Op, class Part> struct OpBuilder {
    Op* op;
    int image[4];
    Part* part_of_right[4];
    OpBuilder(World& w, const char* name, int index) {
        op = &pre::raw<Op>();
        op->Status = ComputableObject::Prepared;
        op->Index = index;
        new (&op->parts) std::vector<FieldOperatorPart*>();
        new (&op->mapPartsFromRight) std::map<size_t, BlockNumber>();
        new (&op->mapPartsFromLeft) std::map<size_t, BlockNumber>();
        new (&op->LeftRightBlocks) FieldOperator::BlocksBimap();
        for (int r = 0; r < w.B; ++r) {
            image[r] = (int)verif::concretize(verif::sym_int(pre::nm(name, r), -1, w.B - 1));
            part_of_right[r] = 0;
            for (int q = 0; q < r; ++q) if (image[r] >= 0) verif::assume(image[q] != image[r]);
        }
        // insertion order as in the real prepare(): by right index
        size_t Size = 0;
        for (int r = 0; r < w.B; ++r) {
            if (image[r] < 0) continue;
            Part* p = &pre::raw<Part>();
            // the parts only need to know their Hamiltonian parts (getLeftIndex/getRightIndex are not used by the selectors)
            op->parts.push_back(p);
            part_of_right[r] = p;
            op->mapPartsFromRight[r] = Size;
            op->mapPartsFromLeft[image[r]] = Size;
            op->LeftRightBlocks.insert(FieldOperator::BlockMapping(BlockNumber(image[r]), BlockNumber(r)));
            ++Size;
        }
    }
    // right block mapped INTO left block l, or -1
    int preimage(int l, int B) const { for (int r = 0; r < B; ++r) if (image[r] == l) return r; return -1; }
};
}  // namespace blk
#endif
