// Unit harness h_termlist  (C12, C02, C01: term reduction shared by all Lehmann sums)
// Real code: TermList<T>::add_term / size / operator() / clear with T = GreensFunctionPart::Term and
//            T = TwoParticleGFPart::NonResonantTerm (the comparator and negligibility test of each).
// A history of NADD add_term calls with SYMBOLIC coefficients; the pole of every call is symbolically one of two pole values
// that are either equal or well separated.  Obligation: the list evaluates to the sum over the DISTINCT poles of the merged
// coefficient / (z - pole), where a merged coefficient that cancels exactly is absent altogether (this is how Wick's theorem
// emerges in exact diagonalisation: transitions that share their poles cancel pairwise), and the number of stored terms is the
// number of poles with a non-zero merged coefficient.  Coefficients are exactly 0 / cancel exactly or stay above 1e-6 in
// modulus (the truncation band itself is the subject of C01).
#include "verif.h"
#include "pomerol/GreensFunctionPart.h"
#include "pomerol/TwoParticleGFPart.h"
#ifndef KIND
#define KIND 0
#endif
#ifdef VERIF_NATIVE
// Term::operator+= is declared inline inside the library's .cpp files; the native replay build therefore compiles the
// library translation unit that defines it together with this harness
#if KIND == 1
#include "pomerol/TwoParticleGFPart.cpp"
#else
#include "pomerol/GreensFunctionPart.cpp"
#endif
#endif
#ifndef NADD
#define NADD 3
#endif
#ifndef KIND
#define KIND 0
#endif
using namespace Pomerol;
using namespace verif;
static double mabs(double v) { return v < 0 ? -v : v; }

extern "C" void h_main() {
    double P[2] = {sym_real("Pa"), sym_real("Pb")};
    assume(mabs(P[0] - P[1]) >= 1e-3);
    double c[4]; int which[4];
    static const char* const cn[4] = {"c0", "c1", "c2", "c3"}; static const char* const wn[4] = {"p0", "p1", "p2", "p3"};
    double sum[2] = {0, 0};
#if KIND == 0
    typedef GreensFunctionPart::Term T;
    TermList<T> L(T::Compare(1e-8), T::IsNegligible(1e-8));
#else
    typedef TwoParticleGFPart::NonResonantTerm T;
    TermList<T> L(T::Compare(1e-8), T::IsNegligible(1e-16));
#endif
    for (int k = 0; k < NADD; ++k) {
        which[k] = (int)concretize(sym_int(wn[k], 0, 1));
        c[k] = sym_real(cn[k]);
        assume(mabs(c[k]) >= 1e-6);
        // a later coefficient may cancel the running sum of its pole exactly; otherwise the sum stays away from zero
        if (sum[which[k]] + c[k] != 0) assume(mabs(sum[which[k]] + c[k]) >= 1e-6); else reach("exact_cancellation");
        sum[which[k]] += c[k];
#if KIND == 0
        L.add_term(T(ComplexType(c[k], 0), P[which[k]]));
#else
        { T t; t.Coeff = ComplexType(c[k], 0); t.Poles[0] = P[which[k]]; t.Poles[1] = 0.25; t.Poles[2] = -0.5; t.isz4 = false; t.Weight = 1; L.add_term(t); }
#endif
    }
    int expect = (sum[0] != 0) + (sum[1] != 0);
    check((int)L.size() == expect, "one stored term per pole with a non-zero merged coefficient");
    if (expect == 0) reach("empty_after_cancellation");
    double x = sym_real("zre"), y = sym_real("zim");
    assume(y != 0);
#if KIND == 0
    ComplexType v = L(ComplexType(x, y));
    ComplexType ref(0, 0);
    for (int q = 0; q < 2; ++q) if (sum[q] != 0) ref += ComplexType(sum[q], 0) / (ComplexType(x, y) - P[q]);
#else
    ComplexType z1(x, y), z2(0.5, 1.5), z3(-0.25, 2.0);
    ComplexType v = L(z1, z2, z3);
    ComplexType ref(0, 0);
    for (int q = 0; q < 2; ++q) if (sum[q] != 0) ref += ComplexType(sum[q], 0) / ((z1 - P[q]) * (z2 - 0.25) * (z3 + 0.5));
#endif
    check_eq(v.real(), ref.real(), "term list value == sum of merged terms (real part)");
    check_eq(v.imag(), ref.imag(), "term list value == sum of merged terms (imaginary part)");
    reach("done");
}
