// Unit harness h_operator  (C05, C17)
//
// Real code driven: Operator::actRight(monomial,ket), Operator::actRight(ket), operator*=, +=, -=, *=(scalar),
//   normalize_and_insert, erase_zero_monomial, getCommutator, getAntiCommutator, commutes, operator==,
//   OperatorPresets::c/c_dag/n, OperatorPresets::N, OperatorPresets::Sz (both constructors), their actRight /
//   getMatrixElement shortcuts.
// Reference: an independent Jordan-Wigner application of operator strings to bit strings (ref_apply).
//
// MODE 1: actRight(monomial, ket) for a monomial of LEN symbolic factors over MODES modes, all kets.
// MODE 2: product of two single monomials A (LA factors) and B (LB factors): for every ket
//         sum_{(m,c) in A*B} c * actRight(m,ket)  ==  A applied to (B applied to ket); also {c_i,c+_j} = delta_ij,
//         {c_i,c_j} = 0 and associativity (A*B)*C == A*(B*C) as maps when LC > 0.
// MODE 3: polynomials with SYMBOLIC real coefficients: A = a1 m1 + a2 m2, B = b1 m3 + b2 m4 (monomials chosen by
//         PAIRSET, including prefix pairs): A+B, A-B, A*B, alpha*A, commutator, anticommutator against reference
//         matrices; operator== and commutes() against matrix (in)equality for coefficients away from the erase band.
// MODE 4: N and Sz shortcuts against the generic polynomial stored in the same object, symbolic up/down index sets.
#include "verif.h"
#include "pomerol/Operator.h"
#include "pomerol/OperatorPresets.h"

#ifndef MODE
#define MODE 1
#endif
#ifndef MODES
#define MODES 3
#endif
#ifndef LEN
#define LEN 2
#endif
#ifndef LA
#define LA 2
#endif
#ifndef LB
#define LB 2
#endif
#ifndef LC
#define LC 0
#endif

using namespace Pomerol;
using namespace verif;
typedef Operator::monomial_t mono_t;

static double mabs(double v) { return v < 0 ? -v : v; }

struct RStr { int n; bool cr[8]; int mode[8]; };
static bool ref_apply(const RStr& t, unsigned ket, unsigned& bra, int& sign) {
    unsigned s = ket; sign = 1;
    for (int i = t.n - 1; i >= 0; --i) {
        int m = t.mode[i];
        bool occ = (s >> m) & 1;
        if (t.cr[i] == occ) return false;
        for (int j = 0; j < m; ++j) if ((s >> j) & 1) sign = -sign;
        s ^= (1u << m);
    }
    bra = s;
    return true;
}
// symbolic factor: code in [0, 2*MODES): type = code / MODES (0 creation, 1 annihilation), mode = code % MODES
static void sym_string(const char* name, int len, RStr& r, mono_t& m) {
    static char buf[32];
    r.n = len; m.clear();
    for (int i = 0; i < len; ++i) {
        int k = 0; for (const char* p = name; *p; ++p) buf[k++] = *p; buf[k++] = char('0' + i); buf[k] = 0;
        long code = concretize(sym_int(buf, 0, 2 * MODES - 1));
        bool cr = code < MODES; int mode = (int)(code % MODES);
        r.cr[i] = cr; r.mode[i] = mode;
        m.push_back(boost::make_tuple(cr ? Operator::creation : Operator::annihilation, (ParticleIndex)mode));
    }
}
static Operator single(const mono_t& m, MelemType c) {
    Operator o;
    if (m.size() == 0) { o += c; return o; }
    // build through the public algebra: product of elementary operators is NOT used here on purpose (that is what
    // MODE 2 checks); the monomial is inserted the way OperatorPresets::c does it
    o.monomials.insert(std::make_pair(m, c));
    return o;
}
// matrix of a library Operator via the real static actRight on each stored monomial
static void lib_matrix(const Operator& O, double (*Mx)[16], unsigned D, int M) {
    for (unsigned k = 0; k < D; ++k) for (unsigned b = 0; b < D; ++b) Mx[b][k] = 0;
    for (unsigned k = 0; k < D; ++k) {
        FockState ket(M, k);
        for (Operator::const_iterator it = O.begin(); it != O.end(); ++it) {
            boost::tuple<FockState, MelemType> r = Operator::actRight(it->first, ket);
            if (boost::get<0>(r).size() == 0) continue;
            Mx[boost::get<0>(r).to_ulong()][k] += boost::get<1>(r) * it->second;
        }
    }
}
static void ref_matrix(const RStr& s, double c, double (*Mx)[16], unsigned D, bool clear) {
    if (clear) for (unsigned k = 0; k < D; ++k) for (unsigned b = 0; b < D; ++b) Mx[b][k] = 0;
    for (unsigned k = 0; k < D; ++k) { unsigned b; int sg; if (ref_apply(s, k, b, sg)) Mx[b][k] += sg * c; }
}
static void matmul(double (*A)[16], double (*B)[16], double (*C)[16], unsigned D) {
    for (unsigned i = 0; i < D; ++i) for (unsigned j = 0; j < D; ++j) { double s = 0; for (unsigned x = 0; x < D; ++x) s += A[i][x] * B[x][j]; C[i][j] = s; }
}

extern "C" void h_main() {
    const int M = MODES; const unsigned D = 1u << M;
#if MODE == 1
    RStr r; mono_t m;
    sym_string("f", LEN, r, m);
    for (unsigned k = 0; k < D; ++k) {
        FockState ket(M, k);
        boost::tuple<FockState, MelemType> out = Operator::actRight(m, ket);
        unsigned b; int sg;
        bool alive = ref_apply(r, k, b, sg);
        if (!alive) { check(boost::get<0>(out).size() == 0 || boost::get<1>(out) == 0, "annihilated state reported as such"); reach("annihilated"); }
        else {
            check(boost::get<0>(out).size() == (size_t)M && boost::get<0>(out).to_ulong() == b, "actRight: resulting Fock state");
            check(boost::get<1>(out) == (double)sg, "actRight: Jordan-Wigner sign");
            if (sg < 0) reach("negative_sign");
        }
    }
    reach("done");
#elif MODE == 2
    RStr ra, rb, rc; mono_t ma, mb, mc;
    sym_string("a", LA, ra, ma);
    sym_string("b", LB, rb, mb);
    Operator A = single(ma, 1.0), B = single(mb, 1.0);
    Operator P = A * B;
    static double Pm[16][16], Am[16][16], Bm[16][16], Rm[16][16];
    lib_matrix(P, Pm, D, M);
    ref_matrix(ra, 1.0, Am, D, true); ref_matrix(rb, 1.0, Bm, D, true); matmul(Am, Bm, Rm, D);
    bool nonzero = false;
    for (unsigned b = 0; b < D; ++b) for (unsigned k = 0; k < D; ++k) {
        check(Pm[b][k] == Rm[b][k], "matrix(A*B) == matrix(A) matrix(B)");
        if (Rm[b][k] != 0) nonzero = true;
    }
    if (nonzero) reach("nonzero_product");
    if (P.monomials.size() >= 2) reach("contraction_produced_two_monomials");
    if (P.isEmpty()) reach("vanishing_product");
    record_int("monomials", (long)P.monomials.size());
    // CAR for the first factors
    if (LA >= 1 && LB >= 1) {
        Operator x = single(mono_t(1, ma[0]), 1.0), y = single(mono_t(1, mb[0]), 1.0);
        Operator ac = x.getAntiCommutator(y);
        static double ACm[16][16];
        lib_matrix(ac, ACm, D, M);
        bool expect_one = (ra.mode[0] == rb.mode[0]) && (ra.cr[0] != rb.cr[0]);
        for (unsigned b = 0; b < D; ++b) for (unsigned k = 0; k < D; ++k)
            check(ACm[b][k] == ((expect_one && b == k) ? 1.0 : 0.0), "{x,y} = delta for elementary operators");
    }
#if LC > 0
    sym_string("c", LC, rc, mc);
    Operator C = single(mc, 1.0);
    Operator L1 = (A * B) * C, L2 = A * (B * C);
    static double L1m[16][16], L2m[16][16];
    lib_matrix(L1, L1m, D, M); lib_matrix(L2, L2m, D, M);
    for (unsigned b = 0; b < D; ++b) for (unsigned k = 0; k < D; ++k) check(L1m[b][k] == L2m[b][k], "(A*B)*C == A*(B*C)");
#endif
    reach("done");
#elif MODE == 3
    // concrete monomial pairs (PAIRSET), symbolic coefficients
    static const int sets[6][4][3] = {
        // each monomial: up to 2 factor codes (-1 = none) ; code = type*MODES + mode, type 0 creation / 1 annihilation
        {{0, -1, -1}, {0, MODES + 1, -1}, {1, -1, -1}, {0, MODES + 1, -1}},          // c+0 | c+0 c1 | c+1 | c+0 c1  (prefix pair, shared monomial)
        {{0, MODES + 0, -1}, {1, MODES + 1, -1}, {0, MODES + 0, -1}, {2, MODES + 2, -1}},  // n0 | n1 | n0 | n2
        {{0, MODES + 1, -1}, {1, MODES + 0, -1}, {1, MODES + 2, -1}, {2, MODES + 1, -1}},  // hoppings
        {{-1, -1, -1}, {0, MODES + 0, -1}, {0, -1, -1}, {MODES + 0, -1, -1}},        // 1 | n0 | c+0 | c0
        {{0, 1, -1}, {MODES + 1, MODES + 0, -1}, {0, 1, -1}, {2, MODES + 2, -1}},    // pair creation | pair annihilation | pair creation | n2
        {{0, -1, -1}, {0, MODES + 1, -1}, {0, MODES + 1, -1}, {0, -1, -1}},          // A and B contain the same two monomials in swapped roles
    };
    RStr rs[4]; mono_t ms[4];
    for (int q = 0; q < 4; ++q) {
        rs[q].n = 0; ms[q].clear();
        for (int i = 0; i < 3; ++i) {
            int code = sets[PAIRSET][q][i];
            if (code < 0) break;
            bool cr = code < MODES; int mode = code % MODES;
            rs[q].cr[rs[q].n] = cr; rs[q].mode[rs[q].n] = mode; rs[q].n++;
            ms[q].push_back(boost::make_tuple(cr ? Operator::creation : Operator::annihilation, (ParticleIndex)mode));
        }
    }
    double a1 = sym_real("a1"), a2 = sym_real("a2"), b1 = sym_real("b1"), b2 = sym_real("b2"), al = sym_real("alpha");
    const double BAND = 1e-9;   // coefficients and their combinations are either exactly 0 or outside the erase band
    double cf[5] = {a1, a2, b1, b2, al};
    for (int i = 0; i < 5; ++i) { if (cf[i] != 0) assume(mabs(cf[i]) >= BAND); }
    Operator A, B;
    if (a1 != 0) A += single(ms[0], a1);
    if (a2 != 0) A += single(ms[1], a2);
    if (b1 != 0) B += single(ms[2], b1);
    if (b2 != 0) B += single(ms[3], b2);
    static double Am[16][16], Bm[16][16], Xm[16][16], Rm[16][16], T1[16][16], T2[16][16];
    ref_matrix(rs[0], a1, Am, D, true); ref_matrix(rs[1], a2, Am, D, false);
    ref_matrix(rs[2], b1, Bm, D, true); ref_matrix(rs[3], b2, Bm, D, false);
    const double TOL = 1e-12;
    {   Operator S = A + B; lib_matrix(S, Xm, D, M);
        for (unsigned b = 0; b < D; ++b) for (unsigned k = 0; k < D; ++k) check(mabs(Xm[b][k] - (Am[b][k] + Bm[b][k])) <= TOL, "matrix(A+B)"); }
    {   Operator S = A - B; lib_matrix(S, Xm, D, M);
        for (unsigned b = 0; b < D; ++b) for (unsigned k = 0; k < D; ++k) check(mabs(Xm[b][k] - (Am[b][k] - Bm[b][k])) <= TOL, "matrix(A-B)"); }
    {   Operator S = A * B; lib_matrix(S, Xm, D, M); matmul(Am, Bm, Rm, D);
        for (unsigned b = 0; b < D; ++b) for (unsigned k = 0; k < D; ++k) check(mabs(Xm[b][k] - Rm[b][k]) <= TOL, "matrix(A*B)"); }
    {   Operator S = A * al; lib_matrix(S, Xm, D, M);
        for (unsigned b = 0; b < D; ++b) for (unsigned k = 0; k < D; ++k) check(mabs(Xm[b][k] - al * Am[b][k]) <= TOL, "matrix(alpha*A)"); }
    {   Operator S = A.getCommutator(B); lib_matrix(S, Xm, D, M); matmul(Am, Bm, T1, D); matmul(Bm, Am, T2, D);
        bool zero = true;
        for (unsigned b = 0; b < D; ++b) for (unsigned k = 0; k < D; ++k) {
            check(mabs(Xm[b][k] - (T1[b][k] - T2[b][k])) <= TOL, "matrix([A,B])");
            if (mabs(T1[b][k] - T2[b][k]) > 1e-6) zero = false;
        }
        bool exactzero = true;
        for (unsigned b = 0; b < D; ++b) for (unsigned k = 0; k < D; ++k) if (T1[b][k] - T2[b][k] != 0) exactzero = false;
        bool cm = A.commutes(B);
        if (exactzero) { check(cm, "commutes() is true when the commutator matrix vanishes"); reach("commuting_pair"); }
        if (!zero) { check(!cm, "commutes() is false when the commutator matrix is far from zero"); reach("non_commuting_pair"); }
    }
    {   Operator S = A.getAntiCommutator(B); lib_matrix(S, Xm, D, M);
        for (unsigned b = 0; b < D; ++b) for (unsigned k = 0; k < D; ++k) check(mabs(Xm[b][k] - (T1[b][k] + T2[b][k])) <= TOL, "matrix({A,B})"); }
    {   // equality test against matrix equality
        bool eqm = true, farm = false;
        for (unsigned b = 0; b < D; ++b) for (unsigned k = 0; k < D; ++k) {
            if (Am[b][k] != Bm[b][k]) eqm = false;
            if (mabs(Am[b][k] - Bm[b][k]) > 1e-6) farm = true;
        }
        bool eq = (A == B), eq2 = (B == A);
        if (eqm) { check(eq && eq2, "operator== is true for equal matrices"); reach("equal_pair"); }
        if (farm) { check(!eq && !eq2, "operator== is false for different matrices"); reach("different_pair"); }
    }
    reach("done");
#elif MODE == 4
    // N: symbolic number of modes handled by concretisation; Sz: symbolic up set (bit mask) / explicit up+down lists
    {
        OperatorPresets::N Nop(M);
        const Operator& gen = Nop;   // the generic polynomial stored in the same object
        for (unsigned k = 0; k < D; ++k) {
            FockState ket(M, k);
            double v = Nop.getMatrixElement(ket);
            unsigned cnt = 0; for (int j = 0; j < M; ++j) cnt += (k >> j) & 1;
            check(v == (double)cnt, "N shortcut == number of particles");
            std::map<FockState, MelemType> sh = Nop.actRight(ket);
            std::map<FockState, MelemType> ge = gen.Operator::actRight(ket);
            double gv = 0; bool offdiag = false;
            for (std::map<FockState, MelemType>::const_iterator it = ge.begin(); it != ge.end(); ++it) { if (it->first == ket) gv = it->second; else if (it->second != 0) offdiag = true; }
            double sv = 0; bool soff = false;
            for (std::map<FockState, MelemType>::const_iterator it = sh.begin(); it != sh.end(); ++it) { if (it->first == ket) sv = it->second; else if (it->second != 0) soff = true; }
            check(!offdiag && !soff && gv == sv, "N::actRight == generic polynomial actRight");
        }
    }
    {
        long upmask = concretize(sym_int("upmask", 0, (1L << M) - 1));
        long dnmask = concretize(sym_int("dnmask", 0, (1L << M) - 1));
        assume((upmask & dnmask) == 0);
        std::vector<ParticleIndex> ups, dns;
        for (int j = 0; j < M; ++j) { if ((upmask >> j) & 1) ups.push_back(j); if ((dnmask >> j) & 1) dns.push_back(j); }
        bool threw = false;
        OperatorPresets::Sz* S = 0;
        try { S = new OperatorPresets::Sz(ups, dns); } catch (Operator::exWrongLabel&) { threw = true; }
        check(threw == (ups.size() != dns.size()), "Sz(up,down) rejects exactly the unbalanced index sets");
        if (!threw) {
            if ((upmask | dnmask) != (long)D - 1) reach("partial_coverage");
            reach("sz_constructed");
            const Operator& gen = *S;
            for (unsigned k = 0; k < D; ++k) {
                FockState ket(M, k);
                int u = 0, d = 0;
                for (int j = 0; j < M; ++j) { if ((k >> j) & 1) { if ((upmask >> j) & 1) ++u; if ((dnmask >> j) & 1) ++d; } }
                double v = S->getMatrixElement(ket);
                check(v == 0.5 * (u - d), "Sz shortcut == (n_up - n_down)/2 on the listed indices");
                std::map<FockState, MelemType> ge = gen.Operator::actRight(ket);
                double gv = 0; bool offdiag = false;
                for (std::map<FockState, MelemType>::const_iterator it = ge.begin(); it != ge.end(); ++it) { if (it->first == ket) gv = it->second; else if (it->second != 0) offdiag = true; }
                std::map<FockState, MelemType> sh = S->actRight(ket);
                double sv = 0;
                for (std::map<FockState, MelemType>::const_iterator it = sh.begin(); it != sh.end(); ++it) if (it->first == ket) sv = it->second;
                check(!offdiag && gv == sv, "Sz::actRight == generic polynomial actRight");
            }
        }
        // one-list constructor: down = complement of up within Nmodes
        bool threw2 = false;
        OperatorPresets::Sz* S2 = 0;
        try { S2 = new OperatorPresets::Sz((ParticleIndex)M, ups); } catch (Operator::exWrongLabel&) { threw2 = true; }
        check(threw2 == (2 * (int)ups.size() != M), "Sz(Nmodes,up) rejects exactly the sets with #up != Nmodes/2");
        if (!threw2) {
            for (unsigned k = 0; k < D; ++k) {
                FockState ket(M, k);
                int u = 0, d = 0;
                for (int j = 0; j < M; ++j) if ((k >> j) & 1) { if ((upmask >> j) & 1) ++u; else ++d; }
                check(S2->getMatrixElement(ket) == 0.5 * (u - d), "Sz(Nmodes,up) shortcut == (n_up - n_rest)/2");
            }
            reach("sz_onelist_constructed");
        }
    }
    reach("done");
#endif
}
