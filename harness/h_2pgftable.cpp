// Unit harness h_2pgftable  (C02, second sentence: "the table of values returned when a list of frequencies is handed to the
// computation (with or without discarding the internal terms afterwards) equals what on-demand evaluation returns")
// Real code: TwoParticleGF::prepare / compute(clear, freqs, comm) (ComputeAndClearWrap, the single-rank dispatcher, reduce, term
//   broadcast) / operator()(long,long,long) / operator()(z1,z2,z3) / isVanishing, TwoParticleGFPart::compute / clear / operator().
// Input: Hubbard atom pushed through the real pipeline (four 1x1 blocks), SYMBOLIC eigenvalues, SYMBOLIC statistical weights and
//   SYMBOLIC beta in a generic regime (SYME=0: concrete non-degenerate eigenvalues instead) (see the assumptions below; the tolerance decisions of the term construction are the subject of
//   h_2pgfpart), index quadruple `quad` (all 16, which includes components without any part: "vanishing"), clear in {false, true}.
// Obligations: the returned table has one entry per frequency triple handed in, and entry w equals the on-demand value of an
//   independently constructed and computed component (no frequency list) at the same triple - as an identity in the symbols; with
//   clear == false the component itself can be evaluated afterwards and gives the same values; with clear == true it holds no terms.
#define MODEL 0
#ifndef SYME
#define SYME 0
#endif
#include "pipeline.h"
#include "pomerol/FieldOperatorContainer.h"
#include "pomerol/TwoParticleGF.h"
using namespace Pomerol;
using namespace verif;
static double mabs(double v) { return v < 0 ? -v : v; }

extern "C" void h_main() {
    pipeln::Model m;
    m.inject(false);
    const double beta = sym_real("beta");
    assume(beta >= 1e-2); assume(beta <= 1e2);
    DensityMatrix rho(*m.S, *m.H, beta);
    rho.prepare();
    double E[4], w[4];
    static const double EC[4] = {0.0, -0.7, -1.1, 0.35};
    for (int b = 0; b < m.NB; ++b) {
#if SYME
        E[b] = m.H->parts[b]->Eigenvalues(0);
#else
        E[b] = m.H->parts[b]->Eigenvalues(0) = EC[b];       // concrete non-degenerate levels (quick tier); SYME=1: symbolic levels
#endif
        w[b] = sym_real(pre::nm("w", b, 0));
        assume(w[b] >= 1e-3); assume(w[b] <= 1);
        rho.parts[b]->weights(0) = w[b];
    }
    // generic position: level differences and weight differences away from the tolerance bands
    for (int a = 0; a < m.NB; ++a) for (int b = 0; b < a; ++b) { assume(mabs(E[a] - E[b]) >= 1e-3); assume(mabs(w[a] - w[b]) >= 1e-3); }
    rho.Status = ComputableObject::Computed;
    FieldOperatorContainer Ops(*m.IC, *m.S, *m.H);
    Ops.prepareAll(); Ops.computeAll();

    const long q = concretize(sym_int("quad", 0, 15));
    const int i1 = (q >> 3) & 1, i2 = (q >> 2) & 1, i3 = (q >> 1) & 1, i4 = q & 1;
    const bool clear = concretize(sym_int("clear", 0, 1)) != 0;
    static const long FR[3][3] = {{0, 1, -2}, {1, 0, 1}, {0, -1, 0}};      // generic; n1 == n3; n1 + n2 == -1
    std::vector<boost::tuple<ComplexType, ComplexType, ComplexType> > freqs;
    const double sp = M_PI / beta;
    for (int f = 0; f < 3; ++f)
        freqs.push_back(boost::make_tuple(ComplexType(0, sp * (2 * FR[f][0] + 1)), ComplexType(0, sp * (2 * FR[f][1] + 1)), ComplexType(0, sp * (2 * FR[f][2] + 1))));
    boost::mpi::communicator world;

    TwoParticleGF X(*m.S, *m.H, Ops.getAnnihilationOperator(i1), Ops.getAnnihilationOperator(i2), Ops.getCreationOperator(i3), Ops.getCreationOperator(i4), rho);
    X.prepare();
    std::vector<ComplexType> table = X.compute(clear, freqs, world);
    TwoParticleGF Y(*m.S, *m.H, Ops.getAnnihilationOperator(i1), Ops.getAnnihilationOperator(i2), Ops.getCreationOperator(i3), Ops.getCreationOperator(i4), rho);
    Y.prepare(); Y.compute();
    if (Y.isVanishing()) reach("vanishing_component"); else reach("non_vanishing_component");
    check(table.size() == freqs.size(), "the returned table has one entry per frequency triple");
    for (size_t f = 0; f < freqs.size() && f < table.size(); ++f) {
        ComplexType ref = Y(FR[f][0], FR[f][1], FR[f][2]);
        check_eq(table[f].real(), ref.real(), "table entry == on-demand value at the same frequencies (real part)");
        check_eq(table[f].imag(), ref.imag(), "table entry == on-demand value at the same frequencies (imaginary part)");
        if (!clear) {
            ComplexType again = X(FR[f][0], FR[f][1], FR[f][2]);
            check_eq(again.real(), ref.real(), "terms kept: the component evaluates on demand to the same value (real part)");
            check_eq(again.imag(), ref.imag(), "terms kept: the component evaluates on demand to the same value (imaginary part)");
        }
    }
    // history: asking an already computed component to prepare and compute again (the usual "make sure it is there" idiom after a bulk
    // computation) changes neither its parts nor its values
    if (!clear) {
        const size_t nparts = X.parts.size();
        X.prepare(); X.compute();
        check(X.parts.size() == nparts, "prepare() on a computed component adds no parts");
        bool threw = false; ComplexType again(0, 0);
        try { again = X(FR[0][0], FR[0][1], FR[0][2]); } catch (std::exception&) { threw = true; }
        check(!threw, "a computed component stays evaluable after a further prepare() / compute()");
        if (!threw) {
            ComplexType ref = Y(FR[0][0], FR[0][1], FR[0][2]);
            check_eq(again.real(), ref.real(), "value unchanged by a further prepare() / compute() (real part)");
            check_eq(again.imag(), ref.imag(), "value unchanged by a further prepare() / compute() (imaginary part)");
        }
        reach("prepared_again");
    }
    // user-set tolerances of a component are handed to every part it creates (TwoParticleGF.h documents them as the knobs of the parts)
    {
        TwoParticleGF Z(*m.S, *m.H, Ops.getAnnihilationOperator(i1), Ops.getAnnihilationOperator(i2), Ops.getCreationOperator(i3), Ops.getCreationOperator(i4), rho);
        Z.ReduceResonanceTolerance = 3e-7; Z.CoefficientTolerance = 5e-15; Z.MultiTermCoefficientTolerance = 7e-6;
        Z.prepare();
        for (size_t p = 0; p < Z.parts.size(); ++p)
            check(Z.parts[p]->ReduceResonanceTolerance == 3e-7 && Z.parts[p]->CoefficientTolerance == 5e-15 && Z.parts[p]->MultiTermCoefficientTolerance == 7e-6,
                  "every part carries the resonance / coefficient / multi-term tolerances of its component");
        if (Z.parts.size()) reach("tolerances_checked");
    }
    if (clear)
        for (size_t p = 0; p < X.parts.size(); ++p)
            check(X.parts[p]->getNumNonResonantTerms() == 0 && X.parts[p]->getNumResonantTerms() == 0, "terms discarded: no part keeps a term");
    reach("done");
}
