// Unit harness h_dispatch  (C16, C06)
// Real code: pMPI::mpi_skel<Job>::run (the whole function, unmodified: job sorting, master construction, dispatch loop,
//   dissemination of the dispatch map), pMPI::MPIMaster::*, pMPI::MPIWorker::* - executed by NRANKS simulated ranks (one
//   cooperative thread each) against the multi-rank MPI model of model/mpi_multi.h; ROUNDS consecutive rounds on the same
//   communicator, each with a symbolic number of jobs in [0, MAXJOBS] and symbolic job complexities.
// Nondeterminism: which in-flight message is delivered next (engine fork at every scheduler decision), number of jobs,
//   complexities (order of the job stack).
// Obligations, for every schedule: no deadlock and every rank leaves the dispatch loop (bounded by the scheduler's step cap, which
//   must not be hit); every job of a round is executed exactly once; the returned job->rank map is the same on all ranks, has one
//   entry per job and names the rank that executed the job; nothing is left in flight after a round.
#ifdef VERIF_NATIVE
#define VERIF_NO_MAIN          /* native replay: real MPI under mpiexec, see the end of this file */
#endif
#include "verif.h"
#ifndef VERIF_NATIVE
#include "../model/mpi_multi.h"
#endif
#include "mpi_dispatcher/mpi_skel.hpp"

#ifndef NRANKS
#define NRANKS 2
#endif
#ifndef MAXJOBS
#define MAXJOBS 2
#endif
#ifndef ROUNDS
#define ROUNDS 1
#endif
#ifndef DEDICATED
#define DEDICATED 0      /* 1: the documented dedicated-master mode: rank 0 only dispatches (MPIMaster(comm, ntasks, false)), ranks 1.. work */
#endif
using namespace verif;

#ifndef VERIF_NATIVE
static int exec_count[ROUNDS][8];
static int exec_rank[ROUNDS][8];
static int cur_round_of[vm::MAXR];
struct Job {
    int id, complexity;
    Job() : id(-1), complexity(1) {}
    Job(int id, int c) : id(id), complexity(c) {}
    void run() { int r = vm::wrank(); exec_count[cur_round_of[r]][id]++; exec_rank[cur_round_of[r]][id] = r; vm::progress[r] = 1; }
};
static int njobs[ROUNDS];
static int cplx[ROUNDS][8];
static std::map<pMPI::JobId, pMPI::WorkerId> result[ROUNDS][vm::MAXR];
static int finished_rounds[vm::MAXR];

static void rank_main(long r) {
    boost::mpi::communicator comm;
    for (int t = 0; t < ROUNDS; ++t) {
        cur_round_of[r] = t;
#if DEDICATED
        // the loops of test/mpi_dispatcher_test_nomaster.cpp (the library's own example of this mode)
        if (r == 0) {
            pMPI::MPIMaster master(comm, (size_t)njobs[t], false);
            for (; !master.is_finished();) { master.order(); master.check_workers(); }
            result[t][r] = master.DispatchMap;
        } else {
            pMPI::MPIWorker worker(comm, 0);
            for (; !worker.is_finished();) {
                worker.receive_order();
                if (worker.is_working()) { Job((int)worker.current_job(), 1).run(); worker.report_job_done(); }
            }
        }
#else
        pMPI::mpi_skel<Job> skel;
        for (int j = 0; j < njobs[t]; ++j) skel.parts.push_back(Job(j, cplx[t][j]));
        result[t][r] = skel.run(comm, false);
#endif
        finished_rounds[r] = t + 1;
    }
}

extern "C" void h_main() {
    vm::init(NRANKS);
    static const char* const jn[3] = {"jobs0", "jobs1", "jobs2"};
    for (int t = 0; t < ROUNDS; ++t) {
        njobs[t] = (int)concretize(sym_int(jn[t], 0, MAXJOBS));
        for (int j = 0; j < njobs[t]; ++j) {
            // complexities are symbolic; only their order matters to the dispatcher (std::sort with a comparison)
            static char nm[16]; nm[0] = 'c'; nm[1] = char('0' + t); nm[2] = '_'; nm[3] = char('0' + j); nm[4] = 0;
            cplx[t][j] = (int)concretize(sym_int(nm, 1, 2));
            exec_count[t][j] = 0; exec_rank[t][j] = -1;
        }
        if (njobs[t] == 0) reach("round_without_jobs");
        if (njobs[t] < NRANKS && njobs[t] > 0) reach("fewer_jobs_than_ranks");
        if (njobs[t] > NRANKS) reach("more_jobs_than_ranks");
    }
    int outcome = vm::run_all(rank_main, 400);
    check(outcome != 0, "no deadlock: some rank can always move or a message is in flight until all ranks have left");
    check(outcome != -1, "all ranks leave the dispatch loops within the scheduler's step bound");
    if (outcome != 1) return;
    reach("all_ranks_finished");
    for (int r = 0; r < NRANKS; ++r) check(finished_rounds[r] == ROUNDS, "every rank completed every round");
    for (int t = 0; t < ROUNDS; ++t) {
        for (int j = 0; j < njobs[t]; ++j) {
            check(exec_count[t][j] == 1, "every job of a round is executed exactly once");
            for (int r = 0; r < (DEDICATED ? 1 : NRANKS); ++r) {
                std::map<pMPI::JobId, pMPI::WorkerId>::const_iterator it = result[t][r].find(j);
                check(it != result[t][r].end() && it->second == exec_rank[t][j], "returned map names the rank that ran the job, on every rank");
            }
        }
        for (int r = 0; r < (DEDICATED ? 1 : NRANKS); ++r) check((int)result[t][r].size() == njobs[t], "returned map has one entry per job");
        if (DEDICATED) for (int j = 0; j < njobs[t]; ++j) check(exec_rank[t][j] != 0, "a dedicated master runs no job itself");
    }
    for (int i = 0; i < vm::nmsg; ++i) check(vm::msgs[i].state == 2, "no message is left undelivered or unconsumed after the last round");
    record_int("messages", vm::sent_total);
    reach("done");
}
#else   // ---------------------------------------------------------------------------------- native replay under real MPI
// mpiexec -np NRANKS: the same rounds (job counts and complexities from the replay file) on the real Boost.MPI / Open MPI;
// a watchdog turns a hang into a failed "no deadlock" check.  The delivery order of the counterexample cannot be imposed on a
// real MPI run; violations that need a particular order may therefore not reproduce (they are then reported as not reproduced).
#include <signal.h>
#include <unistd.h>
#include <boost/serialization/map.hpp>
static void on_alarm(int) { std::printf("FAILED no deadlock: some rank can always move or a message is in flight until all ranks have left\n"); std::fflush(stdout); _exit(3); }
struct NJob { int id, complexity; int* counter; NJob() : id(-1), complexity(1), counter(0) {} NJob(int id, int c, int* cnt) : id(id), complexity(c), counter(cnt) {} void run() { counter[id]++; } };
int main(int argc, char** argv) {
    boost::mpi::environment env(argc, argv);
    boost::mpi::communicator world;
    signal(SIGALRM, on_alarm); alarm(15);
    static const char* const jn[3] = {"jobs0", "jobs1", "jobs2"};
    int failed = 0;
    for (int t = 0; t < ROUNDS; ++t) {
        int nj = (int)__v_sym_int(jn[t], 0, MAXJOBS);
        int local[8] = {0, 0, 0, 0, 0, 0, 0, 0}, total[8];
#if DEDICATED
        std::map<pMPI::JobId, pMPI::WorkerId> m;
        if (world.rank() == 0) {
            pMPI::MPIMaster master(world, (size_t)nj, false);
            for (; !master.is_finished();) { master.order(); master.check_workers(); }
            m = master.DispatchMap;
        } else {
            pMPI::MPIWorker worker(world, 0);
            for (; !worker.is_finished();) {
                worker.receive_order();
                if (worker.is_working()) { local[worker.current_job()]++; worker.report_job_done(); }
            }
        }
        boost::mpi::broadcast(world, m, 0);
#else
        pMPI::mpi_skel<NJob> skel;
        for (int j = 0; j < nj; ++j) { char nm[16]; nm[0] = 'c'; nm[1] = char('0' + t); nm[2] = '_'; nm[3] = char('0' + j); nm[4] = 0; skel.parts.push_back(NJob(j, (int)__v_sym_int(nm, 1, 2), local)); }
        std::map<pMPI::JobId, pMPI::WorkerId> m = skel.run(world, false);
#endif
        boost::mpi::all_reduce(world, local, 8, total, std::plus<int>());
        for (int j = 0; j < nj; ++j) {
            if (total[j] != 1) { std::printf("FAILED every job of a round is executed exactly once\n"); failed = 1; }
            int ran_here = local[j], claimed = (m.count(j) && m[j] == world.rank());
            if (ran_here != claimed) { std::printf("FAILED returned map names the rank that ran the job, on every rank\n"); failed = 1; }
        }
        if ((int)m.size() != nj) { std::printf("FAILED returned map has one entry per job\n"); failed = 1; }
    }
    std::fflush(stdout);
    return failed ? 3 : 0;
}
#endif
