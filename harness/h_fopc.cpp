// Unit harness h_fopc  (C10, COMPLEX-element build: -DPOMEROL_COMPLEX_MATRIX_ELEMENTS)
// Real code (compiled with complex matrix elements): Creation/AnnihilationOperator::prepare, FieldOperator::compute,
//   FieldOperatorPart::compute (conjugated left factor, Eigen dense product, sparseView, row-major -> column-major copy),
//   FieldOperatorContainer::prepareAll/computeAll (adjoint copies of the creation parts into the annihilation operator).
// Eigenvector matrices of the blocks are SYMBOLIC COMPLEX matrices (pipeline.h; 1x1 blocks have U = 1).  Reference operator matrices
// O_lk come from an independent Jordan-Wigner application.
// Obligations, for the operator selected by the split input `op`, computed one by one (PATH 0) or by the container (PATH 1):
//   for every part and all (n,m): | stored(n,m) - sum_{l,k} conj(U_to[l,n]) O_lk U_from[k,m] | <= 1e-8 in the real and in the imaginary
//   part (absent entry = 0), for BOTH storage copies; the two copies agree; sparse representation invariant; completeness of the parts;
//   the stored annihilation part is the Hermitian conjugate of the stored creation part acting between the same blocks (both copies).
#include "pipeline.h"
#include "pomerol/FieldOperatorContainer.h"
#ifndef POMEROL_COMPLEX_MATRIX_ELEMENTS
#error "h_fopc is a unit of the complex-element build"
#endif
using namespace Pomerol;
using namespace verif;
#ifndef PATH
#define PATH 0
#endif
static double mabs(double v) { return v < 0 ? -v : v; }
typedef std::complex<double> Cx;
struct RStr { int n; bool cr[2]; int mode[2]; };
static bool ref_apply(const RStr& t, unsigned ket, unsigned& bra, int& sign) {
    unsigned s = ket; sign = 1;
    for (int i = t.n - 1; i >= 0; --i) {
        int m = t.mode[i]; bool occ = (s >> m) & 1;
        if (t.cr[i] == occ) return false;
        for (int j = 0; j < m; ++j) if ((s >> j) & 1) sign = -sign;
        s ^= (1u << m);
    }
    bra = s; return true;
}
static pipeln::Model* M_;

template <class SM> static void check_invariant(const SM& m) {
    bool ok = m.isCompressed() || true;
    const int outer = (int)m.outerSize(), inner = (int)m.innerSize();
    for (int o = 0; o < outer; ++o) {
        int prev = -1;
        for (typename SM::InnerIterator it(m, o); it; ++it) {
            int i = (int)it.index();
            if (!(i > prev && i < inner)) ok = false;
            prev = i;
        }
    }
    check(ok, "stored sparse matrix: inner indices strictly increasing and in range");
}

// completeness: every block that the operator does not annihilate must be represented by a part with the right target
static void check_complete(const FieldOperator& F, const RStr& op) {
    pipeln::Model& m = *M_;
    for (int R = 0; R < m.NB; ++R) {
        int target = -1;
        for (int k = 0; k < m.bsize(R); ++k) {
            unsigned ket = (unsigned)m.S->getFockState(BlockNumber(R), k).to_ulong(), bra; int sg;
            if (ref_apply(op, ket, bra, sg)) { target = (int)m.S->getBlockNumber((QuantumState)bra); break; }
        }
        check((int)F.getLeftIndex(BlockNumber(R)) == target, "operator has a part for every block it does not annihilate");
    }
}


static bool near(Cx a, Cx b) { return mabs(a.real() - b.real()) <= 1e-8 && mabs(a.imag() - b.imag()) <= 1e-8; }

// compare one computed part with the reference rotation U_to^+ O U_from
static void check_part(FieldOperatorPart& p, const RStr& op, const char* what_row, const char* what_col) {
    pipeln::Model& m = *M_;
    int from = (int)p.getRightIndex(), to = (int)p.getLeftIndex();
    const MatrixType& Uf = m.H->parts[from]->H; const MatrixType& Ut = m.H->parts[to]->H;
    int nf = m.bsize(from), nt = m.bsize(to);
    const RowMajorMatrixType& R = p.getRowMajorValue(); const ColMajorMatrixType& C = p.getColMajorValue();
    check((int)R.rows() == nt && (int)R.cols() == nf && (int)C.rows() == nt && (int)C.cols() == nf, "part has the dimensions of its blocks");
    check_invariant(R); check_invariant(C);
    for (int n = 0; n < nt; ++n)
        for (int mm = 0; mm < nf; ++mm) {
            Cx refv(0, 0);
            for (int k = 0; k < nf; ++k) {
                unsigned ket = (unsigned)m.S->getFockState(BlockNumber(from), k).to_ulong(), bra; int sg;
                if (!ref_apply(op, ket, bra, sg)) continue;
                if ((int)m.S->getBlockNumber((QuantumState)bra) != to) continue;
                int l = (int)m.S->getInnerState((QuantumState)bra);
                refv += std::conj(Cx(Ut(l, n))) * (double)sg * Cx(Uf(k, mm));
            }
            Cx a = R.coeff(n, mm), b = C.coeff(n, mm);
            check(near(a, refv), what_row);
            check(near(b, refv), what_col);
        }
}

extern "C" void h_main() {
    pipeln::Model m; M_ = &m;
    m.inject(true);
    const int Mn = m.M;
    const int sel = (int)concretize(sym_int("op", 0, Mn - 1));
#if PATH == 0
    CreationOperator cd(*m.IC, *m.S, *m.H, sel); cd.prepare(); cd.compute();
    AnnihilationOperator c(*m.IC, *m.S, *m.H, sel); c.prepare(); c.compute();
#else
    FieldOperatorContainer ops(*m.IC, *m.S, *m.H);
    ops.prepareAll(); ops.computeAll();
    CreationOperator& cd = const_cast<CreationOperator&>(ops.getCreationOperator(sel));
    AnnihilationOperator& c = const_cast<AnnihilationOperator&>(ops.getAnnihilationOperator(sel));
#endif
    RStr scd = {1, {true, false}, {sel, 0}}, sc = {1, {false, false}, {sel, 0}};
    check_complete(cd, scd); check_complete(c, sc);
    const std::vector<FieldOperatorPart*>& pcd = cd.getParts();
    const std::vector<FieldOperatorPart*>& pc = c.getParts();
    check(pcd.size() == pc.size(), "as many annihilation parts as creation parts");
    for (size_t q = 0; q < pcd.size(); ++q)
        check_part(*pcd[q], scd, "stored c+_i block (row-major copy) == U_to^+ (c+_i) U_from", "stored c+_i block (column-major copy) == U_to^+ (c+_i) U_from");
    for (size_t q = 0; q < pc.size(); ++q) {
        check_part(*pc[q], sc, "stored c_i block (row-major copy) == U_to^+ (c_i) U_from", "stored c_i block (column-major copy) == U_to^+ (c_i) U_from");
        FieldOperatorPart& cdp = cd.getPartFromLeftIndex(pc[q]->getRightIndex());
        check((int)cdp.getRightIndex() == (int)pc[q]->getLeftIndex(), "c part L<-R pairs with c+ part R<-L");
        int nt = m.bsize((int)pc[q]->getLeftIndex()), nf = m.bsize((int)pc[q]->getRightIndex());
        for (int n = 0; n < nt; ++n) for (int k = 0; k < nf; ++k) {
            Cx want = std::conj(Cx(cdp.getRowMajorValue().coeff(k, n)));
            check(near(Cx(pc[q]->getRowMajorValue().coeff(n, k)), want), "stored c is the Hermitian conjugate of stored c+ (row-major copy)");
            check(near(Cx(pc[q]->getColMajorValue().coeff(n, k)), want), "stored c is the Hermitian conjugate of stored c+ (column-major copy)");
        }
    }
    if (pc.size()) reach("annihilation_parts");
    reach("done");
}
