// Unit harness h_indexinfo  (C18): IndexInfo::operator< is the comparator of the forward lookup map.
// For ARBITRARY (label hash, orbital, spin) triples it must be a strict weak order whose equivalence classes are
// exactly the triples with equal (hash, orbital, spin); otherwise two distinct (site, orbital, spin) of one lattice
// share a map slot and the index map is not a bijection.  Fields are symbolic bit-vectors (hash: 64 bit, orbital and
// spin: the full unsigned short range).
#include <new>
#include "verif.h"
#include "pomerol/IndexClassification.h"
using namespace Pomerol;
using namespace verif;
typedef IndexClassification::IndexInfo II;

static II& mk(const char* h, const char* o, const char* z) {
    II& x = *reinterpret_cast<II*>(::operator new(sizeof(II)));
    x.SiteLabelHash = (std::size_t)sym_int(h, -0x7fffffffffffffffL - 1, 0x7fffffffffffffffL);
    *const_cast<unsigned short*>(&x.Orbital) = (unsigned short)sym_int(o, 0, 65535);
    *const_cast<unsigned short*>(&x.Spin) = (unsigned short)sym_int(z, 0, 65535);
    return x;
}
static bool same(const II& a, const II& b) { return a.SiteLabelHash == b.SiteLabelHash && a.Orbital == b.Orbital && a.Spin == b.Spin; }

extern "C" void h_main() {
    II& a = mk("ha", "oa", "za");
    II& b = mk("hb", "ob", "zb");
    II& c = mk("hc", "oc", "zc");
    bool ab = a < b, ba = b < a, bc = b < c, ac = a < c, cb = c < b, ca = c < a;
    check(!(a < a), "irreflexive");
    check(!(ab && ba), "asymmetric");
    check(!(ab && bc) || ac, "transitive");
    check((ab || ba) == !same(a, b), "a<b or b<a  <=>  (hash,orbital,spin) differ");
    // transitivity of incomparability
    check(!(!ab && !ba && !bc && !cb) || (!ac && !ca), "incomparability is transitive");
    reach("done");
}
