// Unit harness h_hpart  (C03a, C03b; feeds C07)
// Real code: HamiltonianPart::prepare (IndexHamiltonian/Operator::actRight(ket), StatesClassification::getFockState /
//            getInnerState), HamiltonianPart::compute (1x1 special case; n x n path with Eigen's solver replaced by its
//            contract), getMatrixElement, getEigenValue.
// The iterative floating-point eigen-solver cannot be encoded (DESIGN 6): SelfAdjointEigenSolver::compute is overridden
// (engine option 'overrides') by stub_eig_compute below, which returns ARBITRARY symbolic eigenvalues / eigenvectors
// and records the matrix it was given.  Obligations:
//   prepare : H(l,r) == <l|H|r> for all states l,r of the block (reference: independent Jordan-Wigner application of the
//             lattice terms); the block matrix is symmetric;
//   compute : 1x1 block: eigenvalue == H(0,0), eigenvector == 1;  n x n block: the solver is handed the prepared matrix and
//             compute() stores exactly the solver's eigenvalues and eigenvectors (no permutation, no transposition).
// LAYOUT 0: Hubbard atom with symbolic U, eps, h (magnetic splitting)   LAYOUT 1: spinless dimer with symbolic eps_A, eps_B, t
// LAYOUT 2: Hubbard dimer (4 modes) with symbolic U, eps, t
#include "verif.h"
#include "prestate.h"
#include "pomerol/Lattice.h"
#include "pomerol/LatticePresets.h"
#include "pomerol/IndexClassification.h"
#include "pomerol/IndexHamiltonian.h"
#include "pomerol/Symmetrizer.h"
#include "pomerol/StatesClassification.h"
#include "pomerol/HamiltonianPart.h"
#include <Eigen/Eigenvalues>

#ifndef LAYOUT
#define LAYOUT 1
#endif
#ifndef IGNORE_SYMM
#define IGNORE_SYMM false
#endif

using namespace Pomerol;
using namespace verif;
static double mabs(double v) { return v < 0 ? -v : v; }
static long zmask = 0;
static double amp(const char* name, int k) {
    if ((zmask >> k) & 1) return 0;
    double a = sym_real(name);
    assume(mabs(a) >= 1e-3); assume(mabs(a) <= 1e3);
    return a;
}

typedef Eigen::SelfAdjointEigenSolver<MatrixType> Solver;
static MatrixType* g_given = 0;      // matrix handed to the solver
static Solver::EigenvectorsType* g_vec = 0;
static Solver::RealVectorType* g_val = 0;
extern "C" Solver* stub_eig_compute(Solver* self, const Eigen::EigenBase<MatrixType>* a, int /*options*/) {
    const MatrixType& m = a->derived();
    int n = (int)m.rows();
    g_given = new MatrixType(m);
    self->m_eivec.resize(n, n);
    self->m_eivalues.resize(n);
    for (int i = 0; i < n; ++i) {
        self->m_eivalues(i) = sym_real(pre::nm("ev", i));
        for (int j = 0; j < n; ++j) self->m_eivec(i, j) = sym_real(pre::nm("evec", i, j));
    }
    self->m_isInitialized = true; self->m_eigenvectorsOk = true; self->m_info = Eigen::Success;
    g_vec = new Solver::EigenvectorsType(self->m_eivec);
    g_val = new Solver::RealVectorType(self->m_eivalues);
    return self;
}

struct RefTerm { double coef; int n; bool cr[4]; int mode[4]; };
static RefTerm ref[32]; static int nref = 0;
static void r_hop(double c, int a, int b) { RefTerm& t = ref[nref++]; t.coef = c; t.n = 2; t.cr[0] = true; t.cr[1] = false; t.mode[0] = a; t.mode[1] = b; }
static void r_nn(double c, int a, int b) { RefTerm& t = ref[nref++]; t.coef = c; t.n = 4; t.cr[0] = true; t.cr[1] = false; t.cr[2] = true; t.cr[3] = false; t.mode[0] = a; t.mode[1] = a; t.mode[2] = b; t.mode[3] = b; }
static bool ref_apply(const RefTerm& t, unsigned ket, unsigned& bra, int& sign) {
    unsigned s = ket; sign = 1;
    for (int i = t.n - 1; i >= 0; --i) {
        int m = t.mode[i]; bool occ = (s >> m) & 1;
        if (t.cr[i] == occ) return false;
        for (int j = 0; j < m; ++j) if ((s >> j) & 1) sign = -sign;
        s ^= (1u << m);
    }
    bra = s; return true;
}

extern "C" void h_main() {
    Lattice L;
    zmask = concretize(sym_int("zmask", 0, 7));
#if LAYOUT == 0
    L.addSite("A", 1, 2);
    double U = amp("U", 0), eps = amp("eps", 1), h = amp("h", 2);
    LatticePresets::addCoulombS(&L, "A", U, eps);
    L.addTerm(Lattice::Term::Presets::Level("A", h, 0, 1));
#elif LAYOUT == 1
    L.addSite("A", 1, 1); L.addSite("B", 1, 1);
    double ea = amp("epsA", 0), eb = amp("epsB", 1), t = amp("t", 2);
    LatticePresets::addLevel(&L, "A", ea); LatticePresets::addLevel(&L, "B", eb);
    LatticePresets::addHopping(&L, "A", "B", t);
#else
    L.addSite("A", 1, 2); L.addSite("B", 1, 2);
    double U = amp("U", 0), eps = amp("eps", 1), t = amp("t", 2);
    LatticePresets::addCoulombS(&L, "A", U, eps); LatticePresets::addCoulombS(&L, "B", U, eps);
    LatticePresets::addHopping(&L, "A", "B", t);
#endif
    IndexClassification IC(L.getSiteMap()); IC.prepare(false);
    const int M = (int)IC.getIndexSize();
#if LAYOUT == 0
    { int d = IC.getIndex("A", 0, 0), u = IC.getIndex("A", 0, 1); r_nn(U, u, d); r_hop(eps, d, d); r_hop(eps, u, u); r_hop(h, u, u); }
#elif LAYOUT == 1
    { int a = IC.getIndex("A", 0, 0), b = IC.getIndex("B", 0, 0); r_hop(ea, a, a); r_hop(eb, b, b); r_hop(t, a, b); r_hop(t, b, a); }
#else
    { int ad = IC.getIndex("A", 0, 0), au = IC.getIndex("A", 0, 1), bd = IC.getIndex("B", 0, 0), bu = IC.getIndex("B", 0, 1);
      r_nn(U, au, ad); r_nn(U, bu, bd); r_hop(eps, ad, ad); r_hop(eps, au, au); r_hop(eps, bd, bd); r_hop(eps, bu, bu);
      r_hop(t, ad, bd); r_hop(t, bd, ad); r_hop(t, au, bu); r_hop(t, bu, au); }
#endif
    IndexHamiltonian HS(&L, IC); HS.prepare();
    Symmetrizer Symm(IC, HS); Symm.compute(IGNORE_SYMM);
    StatesClassification S(IC, Symm); S.compute();
    const int NB = (int)S.NumberOfBlocks();
    record_int("blocks", NB);
    bool saw_nxn = false, saw_1x1 = false;
    for (int b = 0; b < NB; ++b) {
        HamiltonianPart part(IC, HS, S, BlockNumber(b));
        part.prepare();
        const int n = (int)S.getBlockSize(b);
        check((int)part.H.rows() == n && (int)part.H.cols() == n, "block matrix has the size of the block");
        for (int r = 0; r < n; ++r) {
            unsigned ket = (unsigned)S.getFockState(BlockNumber(b), r).to_ulong();
            for (int l = 0; l < n; ++l) {
                unsigned bra = (unsigned)S.getFockState(BlockNumber(b), l).to_ulong();
                double refv = 0;
                for (int q = 0; q < nref; ++q) { unsigned out; int sg; if (ref_apply(ref[q], ket, out, sg) && out == bra) refv += sg * ref[q].coef; }
                check(mabs(part.getMatrixElement((InnerQuantumState)l, (InnerQuantumState)r) - refv) <= 1e-12, "H_block(l,r) == <l|H|r>");
                if (l < r) check(mabs(part.H(l, r) - part.H(r, l)) <= 1e-12, "block matrix is symmetric");
            }
        }
        MatrixType prepared = part.H;
        g_given = 0;
        part.compute();
        if (n == 1) {
            saw_1x1 = true;
            check(part.getEigenValue(0) == prepared(0, 0), "1x1 block: eigenvalue == H(0,0)");
            check(part.H(0, 0) == 1.0, "1x1 block: eigenvector == 1");
            check(g_given == 0, "1x1 block does not call the solver");
        } else {
            saw_nxn = true;
#ifndef VERIF_NATIVE   /* the native build runs the real solver: the contract stub is not linked in */
            check(g_given != 0, "n x n block calls the eigen-solver");
#endif
            if (g_given) {
                bool same = true, vals = true, vecs = true;
                for (int r = 0; r < n; ++r) for (int c = 0; c < n; ++c) {
                    if ((*g_given)(r, c) != prepared(r, c)) same = false;
                    if (part.H(r, c) != (*g_vec)(r, c)) vecs = false;
                }
                for (int i = 0; i < n; ++i) if (part.getEigenValue(i) != (*g_val)(i)) vals = false;
                check(same, "solver is handed the prepared block matrix");
                check(vals, "compute stores the solver's eigenvalues unpermuted");
                check(vecs, "compute stores the solver's eigenvector matrix as is");
            }
        }
    }
    if (saw_nxn) reach("nxn_block");
    if (saw_1x1) reach("1x1_block");
    reach("done");
}
