// Unit harness h_dm  (C09, C19)
// Real code: DensityMatrix::prepare/compute/getWeight/getAverageEnergy/getAverageOccupancy()/(i)/getAverageDoubleOccupancy,
//            truncateBlocks/isRetained; DensityMatrixPart::computeUnnormalized/normalize/getWeight/getAverage*/truncate;
//            Hamiltonian::getGroundEnergy.
// Eigenvalues (and, with VEC=1, eigenvector matrices of the 2x2 blocks) are symbolic (pipeline.h); beta > 0 symbolic;
// exp is the uninterpreted E: R -> R with E(x) > 0, E(0) = 1.
// Obligations: every argument handed to exp is <= 0 and one is 0 (weights cannot overflow, Z >= 1);
//   w_s >= 0, sum_s w_s == 1, w_a E(-beta(E_b-E_0)) == w_b E(-beta(E_a-E_0)) (Gibbs ratio without transcendental facts);
//   getWeight(state) addresses (block, inner) correctly;  <H> == sum w_s E_s;  <N>, <n_i>, <n_i n_j> equal the trace of
//   rho = sum_s w_s |s><s| with the operator, |s> = sum_f U_fs |f>;  truncateBlocks(eps): a block is discarded iff none of
//   its weights exceeds eps, eps = 0 keeps every block with a positive weight.
#include "pipeline.h"
#include <cmath>
using namespace Pomerol;
using namespace verif;
#ifndef VEC
#define VEC 0
#endif
static double mabs(double v) { return v < 0 ? -v : v; }

extern "C" void h_main() {
    pipeln::Model m;
    m.inject(VEC != 0);
    {   // which state is the ground state is a split input: the ground energy then is a plain variable, not an ite term
        long gs = concretize(sym_int("gs", 0, (1L << m.M) - 1));
        int k = 0; const double* eg = 0;
        for (int b = 0; b < m.NB; ++b) for (int i = 0; i < m.bsize(b); ++i, ++k) if (k == gs) eg = &m.H->parts[b]->Eigenvalues(i);
        for (int b = 0; b < m.NB; ++b) for (int i = 0; i < m.bsize(b); ++i) assume(*eg <= m.H->parts[b]->Eigenvalues(i));
        m.H->computeGroundEnergy();
    }
    double beta = sym_real("beta");
    assume(beta > 0);
    DensityMatrix rho(*m.S, *m.H, beta);
    rho.prepare();
    rho.compute();
    __v_check_exp_args("density matrix");
    reach("computed");
    const double E0 = m.H->getGroundEnergy();
    // weights
    double sum = 0;
    double w[16]; double e[16]; int blk[16], inn[16]; int ns = 0;
    for (int b = 0; b < m.NB; ++b)
        for (int i = 0; i < m.bsize(b); ++i) {
            w[ns] = rho.getPart(BlockNumber(b)).getWeight(i);
            e[ns] = m.H->parts[b]->Eigenvalues(i);
            blk[ns] = b; inn[ns] = i;
            check(w[ns] >= 0, "weight >= 0");
            sum += w[ns];
            ++ns;
        }
    check_eq(sum, 1.0, "weights sum to one");
    for (int a = 0; a < ns; ++a)
        for (int b = a + 1; b < ns && b < a + 3; ++b)
            check_eq(w[a] * std::exp(-beta * (e[b] - E0)), w[b] * std::exp(-beta * (e[a] - E0)), "w_a : w_b == exp(-beta(E_a - E_b))");
    for (unsigned s = 0; s < (1u << m.M); ++s) {
        int b = (int)m.S->getBlockNumber((QuantumState)s); int in = (int)m.S->getInnerState((QuantumState)s);
        check(rho.getWeight(s) == rho.getPart(BlockNumber(b)).getWeight(in), "getWeight(state) == weight stored at (block, inner)");
    }
    // averages
    double Eavg = 0;
    for (int a = 0; a < ns; ++a) Eavg += w[a] * e[a];
    check_eq(rho.getAverageEnergy(), Eavg, "<H> == sum_s w_s E_s");
    {
        double Nref = 0, n0ref = 0, ddref = 0;
        const int i0 = 0, j0 = m.M - 1;
        for (int a = 0; a < ns; ++a) {
            const MatrixType& U = m.H->parts[blk[a]]->H;
            for (int f = 0; f < m.bsize(blk[a]); ++f) {
                FockState fs = m.S->getFockState(BlockNumber(blk[a]), f);
                double p = mabs(U(f, inn[a]) * U(f, inn[a]));
                Nref += w[a] * fs.count() * p;
                n0ref += w[a] * (fs.test(i0) ? 1 : 0) * p;
                ddref += w[a] * (fs.test(i0) && fs.test(j0) ? 1 : 0) * p;
            }
        }
        check_eq(rho.getAverageOccupancy(), Nref, "<N> == Tr(rho N)");
        check_eq(rho.getAverageOccupancy(i0), n0ref, "<n_i> == Tr(rho n_i)");
        check_eq(rho.getAverageDoubleOccupancy(i0, j0), ddref, "<n_i n_j> == Tr(rho n_i n_j)");
        record("N", Nref);
    }
#ifndef NOTRUNC
    // truncation
    double eps = sym_real("eps");
    assume(eps >= 0);
    rho.truncateBlocks(eps, false);
    int k = 0;
    for (int b = 0; b < m.NB; ++b) {
        bool any = false;
        for (int i = 0; i < m.bsize(b); ++i, ++k) if (w[k] > eps) any = true;
        check(rho.isRetained(BlockNumber(b)) == any, "block retained iff some weight exceeds eps");
        if (!any) reach("block_discarded");
    }
    // a second truncation of the SAME density matrix with an independent tolerance (smaller, equal or larger): the rule applies to the
    // tolerance of the last call, whatever was discarded before (C19: "with eps = 0 nothing changes")
    double eps2 = sym_real("eps2");
    assume(eps2 >= 0);
    rho.truncateBlocks(eps2, false);
    k = 0;
    for (int b = 0; b < m.NB; ++b) {
        bool any = false;
        for (int i = 0; i < m.bsize(b); ++i, ++k) if (w[k] > eps2) any = true;
        check(rho.isRetained(BlockNumber(b)) == any, "after a second truncation: block retained iff some weight exceeds the new eps");
        if (any && eps2 < eps) reach("block_retained_again");
    }
#endif
    reach("done");
}
