// Unit harness h_suscpart  (C14, C17)
//
// Real code driven: SusceptibilityPart::SusceptibilityPart, ::compute, ::operator()(ComplexType),
//                   TermList<Term>, Term::operator()(z)
// Pre-state       : A (OUTER x INNER, row major), B (INNER x OUTER, column major), symbolic values and patterns,
//                   exact-size storage; eigenvalues, weights >= 0, beta > 0.
// Oracle (SusceptibilityPart.h / Susceptibility.h documentation):
//     chi(z) = sum_{n,m : |P_nm| >= 1e-8, |R_nm| > 1e-8}  -R_nm / (z - P_nm)
//              + [ |z| < 1e-15 ] * beta * sum_{n,m : |P_nm| < 1e-8} A_nm B_mn w_n,
//     R_nm = A[n,m] B[m,n] (w_out[n] - w_in[m]),   P_nm = E_in[m] - E_out[n]
// ZCASE 0 : z = x + i y, y*y >= 1e-20 (away from zero)       ZCASE 1 : z = 0 exactly (static limit)
// REGIME 0: poles of contributing pairs pairwise >= 1e-8 apart (no merging)
// REGIME 1: poles pairwise equal or >= 1e-8 apart, contributing residues all > 1e-8 (merging without cancellation)
// REGIME 2: memory-safety monitors only.
// REGIME 6: (C08) OUTER = INNER = 2, inner and outer block are THE SAME block (one-block partition: same energies, same weights);
//           refining the partition into two 1x1 blocks turns every contributing pair (n,m) into a 1x1 part between block {m} and
//           block {n}; the sum of those part values must equal the value of the 2x2 part (z away from 0 and z = 0 exactly).
#include "prestate.h"
#include "pomerol/SusceptibilityPart.h"

#ifndef OUTER
#define OUTER 2
#endif
#ifndef INNER
#define INNER 2
#endif
#ifndef REGIME
#define REGIME 0
#endif
#ifndef ZCASE
#define ZCASE 0
#endif

using namespace Pomerol;
using namespace verif;

static double mabs(double v) { return v < 0 ? -v : v; }

extern "C" void h_main() {
    const int o = OUTER, i = INNER;
    pre::Dense dA = pre::dense(o, i, "A");
    pre::Dense dB = pre::dense(i, o, "B");
    HamiltonianPart& Hin = pre::hpart(i, "Ein");
    HamiltonianPart& Hout = pre::hpart(o, "Eout");
    double beta = sym_real("beta");
    assume(beta > 0);
    DensityMatrixPart& DMin = pre::dmpart(Hin, i, beta, "win");
    DensityMatrixPart& DMout = pre::dmpart(Hout, o, beta, "wout");
#if REGIME == 6
    for (int k = 0; k < o; ++k) { Hout.Eigenvalues(k) = Hin.Eigenvalues(k); DMout.weights(k) = DMin.weights(k); }
#endif
    QuadraticOperatorPart& A = pre::oppart<QuadraticOperatorPart>(dA);
    QuadraticOperatorPart& B = pre::oppart<QuadraticOperatorPart>(dB);

    SusceptibilityPart Chi(A, B, Hin, Hout, DMin, DMout);
    Chi.compute();
    reach("computed");

#if REGIME == 6
    {
#if ZCASE == 0
        double x = sym_real("zre"), y = sym_real("zim");
        assume(y * y >= 1e-20);
#else
        double x = 0, y = 0;
#endif
        ComplexType whole = Chi(ComplexType(x, y));
        ComplexType split(0, 0);
        int nparts = 0;
        for (int n = 0; n < o; ++n) for (int m = 0; m < i; ++m) {
            if (!(dA.present[n][m] && dB.present[m][n])) continue;
            // a level difference is either exactly zero or outside the resonance tolerance (the band itself is not the subject here)
            double Pnm = Hin.Eigenvalues(m) - Hout.Eigenvalues(n);
            if (Pnm != 0) assume(mabs(Pnm) >= 1e-8);
            pre::Dense a1, b1; a1.rows = a1.cols = b1.rows = b1.cols = 1;
            a1.present[0][0] = true; a1.v[0][0] = dA.v[n][m];
            b1.present[0][0] = true; b1.v[0][0] = dB.v[m][n];
            HamiltonianPart& hi = pre::raw<HamiltonianPart>(); new (&hi.H) MatrixType(); new (&hi.Eigenvalues) RealVectorType(1);
            hi.Eigenvalues(0) = Hin.Eigenvalues(m); hi.Status = ComputableObject::Computed;
            HamiltonianPart& ho = pre::raw<HamiltonianPart>(); new (&ho.H) MatrixType(); new (&ho.Eigenvalues) RealVectorType(1);
            ho.Eigenvalues(0) = Hout.Eigenvalues(n); ho.Status = ComputableObject::Computed;
            DensityMatrixPart& di = pre::raw<DensityMatrixPart>(); new (static_cast<Thermal*>(&di)) Thermal(beta); new (&di.weights) RealVectorType(1);
            di.weights(0) = DMin.weights(m); di.retained = true;
            DensityMatrixPart& dou = pre::raw<DensityMatrixPart>(); new (static_cast<Thermal*>(&dou)) Thermal(beta); new (&dou.weights) RealVectorType(1);
            dou.weights(0) = DMout.weights(n); dou.retained = true;
            QuadraticOperatorPart& Ak = pre::oppart<QuadraticOperatorPart>(a1);
            QuadraticOperatorPart& Bk = pre::oppart<QuadraticOperatorPart>(b1);
            SusceptibilityPart Ck(Ak, Bk, hi, ho, di, dou);
            Ck.compute();
            split += Ck(ComplexType(x, y));
            ++nparts;
            if (Pnm == 0 && n != m) reach("degenerate_pair_across_blocks");
        }
        check_eq(whole.real(), split.real(), "sum of susceptibility part values is invariant under splitting the block (real part)");
        check_eq(whole.imag(), split.imag(), "sum of susceptibility part values is invariant under splitting the block (imaginary part)");
        if (nparts >= 2) reach("split_compared");
    }
#elif REGIME != 2
#if ZCASE == 0
    double x = sym_real("zre"), y = sym_real("zim");
    assume(y * y >= 1e-20);
#else
    double x = 0, y = 0;
#endif
    double R[4][4], P[4][4];
    bool on[4][4];
    int npairs = 0;
    double zpw = 0;
    bool anyzero = false;
    for (int n = 0; n < o; ++n)
        for (int m = 0; m < i; ++m) {
            on[n][m] = false; R[n][m] = 0; P[n][m] = 0;
            if (!(dA.present[n][m] && dB.present[m][n])) continue;
            P[n][m] = Hin.Eigenvalues(m) - Hout.Eigenvalues(n);
            if (mabs(P[n][m]) < 1e-8) {          // zero-energy pole: collected separately
                zpw += dA.v[n][m] * dB.v[m][n] * DMout.weights(n);
                anyzero = true;
                continue;
            }
            R[n][m] = dA.v[n][m] * dB.v[m][n] * (DMout.weights(n) - DMin.weights(m));
#if REGIME == 1
            assume(R[n][m] > 1e-8);
            on[n][m] = true;
#else
            on[n][m] = mabs(R[n][m]) > 1e-8;
#endif
            if (on[n][m]) ++npairs;
        }
    bool merged = false;
    for (int a = 0; a < o * i; ++a)
        for (int b = a + 1; b < o * i; ++b) {
            int n1 = a / i, m1 = a % i, n2 = b / i, m2 = b % i;
            if (!on[n1][m1] || !on[n2][m2]) continue;
#if REGIME == 1
            if (P[n1][m1] == P[n2][m2]) { merged = true; continue; }
#endif
            assume(mabs(P[n1][m1] - P[n2][m2]) >= 1e-8);
        }
    if (merged) reach("poles_merged");
    if (npairs >= 2) reach("two_or_more_terms");
    if (anyzero) reach("zero_pole");

    double cre = 0, cim = 0;
    for (int n = 0; n < o; ++n)
        for (int m = 0; m < i; ++m) {
            if (!on[n][m]) continue;
            double dx = x - P[n][m];
            double den = dx * dx + y * y;
            cre += -R[n][m] * dx / den;
            cim += R[n][m] * y / den;
        }
#if ZCASE == 1
    cre += zpw * beta;
#endif
    ComplexType c = Chi(ComplexType(x, y));
    record("chi.re", c.real()); record("ref.re", cre);
    check_eq(c.real(), cre, "chi_part(z).re == bosonic Lehmann sum");
    check_eq(c.imag(), cim, "chi_part(z).im == bosonic Lehmann sum");
#endif
}
