// Unit harness h_2pgfpart  (C02a, C02b, C02d, C17)
// Real code: TwoParticleGFPart::TwoParticleGFPart, ::compute (chaseIndices, addMultiterm), ::operator()(long,long,long),
//   ::operator()(z1,z2,z3), NonResonantTerm / ResonantTerm evaluation and comparison, both TermLists, clear().
// Pre-state: O1 (DIM1 x DIM2, row major), O2 (DIM2 x DIM3, column major), O3 (DIM3 x DIM4, row major), CX4 (DIM4 x DIM1, column major) with
//   symbolic values and sparsity patterns (exact-size storage), four blocks with symbolic eigenvalues and weights >= 0,
//   beta > 0 symbolic, permutation PERM of the first three operators.
// Oracle: the multi-term of the header documentation (Hafermann et al. 2009), summed over all stored quadruples:
//   phi = 1/((z1-P1)(z3-P3)) [ C4/(z1+z2+z3-P1-P2-P3) + C2/(z2-P2) + R12 d12 + N12 (1-d12)/(z1+z2-P1-P2)
//                              + R23 d23 + N23 (1-d23)/(z2+z3-P2-P3) ]
//   P1 = E2-E1, P2 = E3-E2, P3 = E4-E3, C2 = -C(w2+w3), C4 = C(w1+w4), R12 = C beta w1, N12 = C(w3-w1),
//   R23 = -C beta w2, N23 = C(w2-w4), C = sign(perm) O1[1,2] O2[2,3] O3[3,4] CX4[4,1],
//   Kronecker symbols read as |.| < 1e-8, terms below the documented coefficient tolerance 1e-16 omitted, quadruples with
//   w1+w2+w3+w4 < 1e-16 omitted; frequencies (z1,z2,-z3) permuted by PERM, z_k = i pi (2 n_k + 1)/beta.
// Regime: distinct stored quadruples have first poles at least 1e-8 apart (no merging of terms).
// FREQ selects concrete Matsubara triples: 0: (0,1,-3) generic; 1: (0,-1,2) n1+n2=-1; 2: (1,0,0) n2=n3; 3: (2,-3,2) both.
#include "prestate.h"
#include "pomerol/TwoParticleGFPart.h"

#ifndef DIM1
#define DIM1 1
#endif
#ifndef DIM2
#define DIM2 1
#endif
#ifndef DIM3
#define DIM3 1
#endif
#ifndef DIM4
#define DIM4 1
#endif
#ifndef FREQ
#define FREQ 0
#endif
#ifndef MEMONLY
#define MEMONLY 0
#endif
#ifndef GENERIC
#define GENERIC 0
#endif

using namespace Pomerol;
using namespace verif;
static double mabs(double v) { return v < 0 ? -v : v; }

extern "C" void h_main() {
    const int PERM = (int)concretize(sym_int("perm", 0, 5));
    pre::Dense d1 = pre::dense(DIM1, DIM2, "O1"), d2 = pre::dense(DIM2, DIM3, "O2"), d3 = pre::dense(DIM3, DIM4, "O3"), d4 = pre::dense(DIM4, DIM1, "CX4");
    HamiltonianPart& H1 = pre::hpart(DIM1, "Ea"); HamiltonianPart& H2 = pre::hpart(DIM2, "Eb");
    HamiltonianPart& H3 = pre::hpart(DIM3, "Ec"); HamiltonianPart& H4 = pre::hpart(DIM4, "Ed");
    double beta = sym_real("beta");
    assume(beta > 0);
    DensityMatrixPart& M1 = pre::dmpart(H1, DIM1, beta, "wa"); DensityMatrixPart& M2 = pre::dmpart(H2, DIM2, beta, "wb");
    DensityMatrixPart& M3 = pre::dmpart(H3, DIM3, beta, "wc"); DensityMatrixPart& M4 = pre::dmpart(H4, DIM4, beta, "wd");
    AnnihilationOperatorPart& O1 = pre::oppart<AnnihilationOperatorPart>(d1);
    AnnihilationOperatorPart& O2 = pre::oppart<AnnihilationOperatorPart>(d2);
    CreationOperatorPart& O3 = pre::oppart<CreationOperatorPart>(d3);
    CreationOperatorPart& CX4 = pre::oppart<CreationOperatorPart>(d4);
#if GENERIC
    // generic regime (used for the multi-quadruple shapes so that the coefficient-tolerance decisions do not fork):
    // matrix elements at least 1e-3 in modulus, weights at least 1e-3 and pairwise at least 1e-6 apart, beta in [1e-2, 1e2]
    {
        const pre::Dense* ds[4] = {&d1, &d2, &d3, &d4};
        for (int q = 0; q < 4; ++q) for (int r = 0; r < ds[q]->rows; ++r) for (int c = 0; c < ds[q]->cols; ++c)
            if (ds[q]->present[r][c]) assume(mabs(ds[q]->v[r][c]) >= 1e-3);
        double ws[16]; int nw = 0;
        for (int i = 0; i < DIM1; ++i) ws[nw++] = M1.weights(i);
        for (int i = 0; i < DIM2; ++i) ws[nw++] = M2.weights(i);
        for (int i = 0; i < DIM3; ++i) ws[nw++] = M3.weights(i);
        for (int i = 0; i < DIM4; ++i) ws[nw++] = M4.weights(i);
        for (int a = 0; a < nw; ++a) { assume(ws[a] >= 1e-3); for (int b = 0; b < a; ++b) assume(mabs(ws[a] - ws[b]) >= 1e-6); }
        assume(beta >= 1e-2); assume(beta <= 1e2);
    }
#endif
    TwoParticleGFPart X(O1, O2, O3, CX4, H1, H2, H3, H4, M1, M2, M3, M4, permutations3[PERM]);
    X.compute();
    reach("computed");
#if !MEMONLY
    // ---- (B) the stored term lists are exactly the documented multi-terms of the stored quadruples --------------------
    typedef TwoParticleGFPart::NonResonantTerm NRT; typedef TwoParticleGFPart::ResonantTerm RT;
    const std::set<NRT, NRT::Compare>& nrs = X.NonResonantTerms.data;
    const std::set<RT, RT::Compare>& rs = X.ResonantTerms.data;
    int nq = 0, expect_nr = 0, expect_r = 0; double P1s[16], P2s[16], P3s[16];
    for (int i = 0; i < DIM1; ++i) for (int k = 0; k < DIM3; ++k) for (int j = 0; j < DIM2; ++j) for (int l = 0; l < DIM4; ++l) {
        if (!(d1.present[i][j] && d2.present[j][k] && d3.present[k][l] && d4.present[l][i])) continue;
        double wi = M1.weights(i), wj = M2.weights(j), wk = M3.weights(k), wl = M4.weights(l);
        if (!(wi + wj + wk + wl >= 1e-16)) { reach("quadruple_without_weight"); continue; }
        double C = d1.v[i][j] * d2.v[j][k] * d3.v[k][l] * d4.v[l][i] * permutations3[PERM].sign;
        double Ei = H1.Eigenvalues(i), Ej = H2.Eigenvalues(j), Ek = H3.Eigenvalues(k), El = H4.Eigenvalues(l);
        double P1 = Ej - Ei, P2 = Ek - Ej, P3 = El - Ek;
        // regime: no merging between quadruples (pole triples differ by at least 1e-8 in some component)
        for (int q = 0; q < nq; ++q) assume(mabs(P1s[q] - P1) >= 1e-8 || mabs(P2s[q] - P2) >= 1e-8 || mabs(P3s[q] - P3) >= 1e-8);
        P1s[nq] = P1; P2s[nq] = P2; P3s[nq] = P3; ++nq;
        double C2 = -C * (wj + wk), C4 = C * (wi + wl), R12 = C * beta * wi, N12 = C * (wk - wi), R23 = -C * beta * wj, N23 = C * (wj - wl);
        for (int flag = 0; flag < 2; ++flag) {
            double cc = flag ? C4 : C2;
            int found = 0;
            for (std::set<NRT, NRT::Compare>::const_iterator it = nrs.begin(); it != nrs.end(); ++it)
                if (it->isz4 == (flag != 0) && it->Poles[0] == P1 && it->Poles[1] == P2 && it->Poles[2] == P3) {
                    ++found;
                    check(it->Coeff.real() == cc && it->Coeff.imag() == 0 && it->Poles[1] == P2 && it->Poles[2] == P3 && it->Weight == 1,
                          flag ? "stored z4 term carries C4 = C(w1+w4) and poles (E2-E1, E3-E2, E4-E3)" : "stored z2 term carries C2 = -C(w2+w3) and poles (E2-E1, E3-E2, E4-E3)");
                }
            bool want = mabs(cc) > 1e-16;
            check(found == (want ? 1 : 0), "a non-resonant term is stored iff its coefficient exceeds the tolerance");
            if (want) ++expect_nr;
        }
        for (int flag = 0; flag < 2; ++flag) {          // flag 1: z1+z2 resonance, flag 0: z2+z3 resonance
            double rc = flag ? R12 : R23, nc = flag ? N12 : N23;
            int found = 0;
            for (std::set<RT, RT::Compare>::const_iterator it = rs.begin(); it != rs.end(); ++it)
                if (it->isz1z2 == (flag != 0) && it->Poles[0] == P1 && it->Poles[1] == P2 && it->Poles[2] == P3) {
                    ++found;
                    check(it->ResCoeff.real() == rc && it->NonResCoeff.real() == nc && it->ResCoeff.imag() == 0 && it->NonResCoeff.imag() == 0 &&
                          it->Poles[1] == P2 && it->Poles[2] == P3 && it->Weight == 1,
                          flag ? "stored (z1+z2)-resonant term carries R12 = C beta w1, N12 = C(w3-w1)" : "stored (z2+z3)-resonant term carries R23 = -C beta w2, N23 = C(w2-w4)");
                }
            bool want = mabs(rc) > 1e-16 || mabs(nc) > 1e-16;
            check(found == (want ? 1 : 0), "a resonant term is stored iff one of its coefficients exceeds the tolerance");
            if (want) ++expect_r;
        }
    }
    check((int)nrs.size() == expect_nr && (int)rs.size() == expect_r, "no term beyond the documented multi-terms");
    if (nq >= 2) reach("two_quadruples");
    if (nq == 0) reach("no_quadruple");
    // (evaluation of the term lists at Matsubara numbers, frequency permutation and resonance decisions: unit h_2pgfterm)
    // purge
    X.clear();
    bool threw = false;
    try { X(0L, 0L, 0L); } catch (std::logic_error&) { threw = true; }
    check(threw, "evaluating a purged part throws");
    check(X.getNumNonResonantTerms() == 0 && X.getNumResonantTerms() == 0, "clear() removes all terms");
#endif
    reach("done");
}
