// Unit harness h_index  (C18)
//
// Real code driven: Lattice::addSite, IndexClassification::IndexClassification, ::prepare(order_spins),
//                   ::getIndex (both overloads), ::getInfo, ::getIndexSize, IndexInfo::IndexInfo / operator<
//                   (boost::hash<std::string> from the real Boost headers).
// Inputs          : NSITES sites with labels from label set LABELS, orbital and spin counts symbolic in
//                   [1,MAXORB] x [1,MAXSPN] (concretised: they size the loops), ordering mode ORDER.
// Obligations     : index space size = sum orb*spin; getIndex(getInfo(i)) == i for all i; getInfo(getIndex(s,o,z)) ==
//                   (s,o,z) for all valid triples; distinct triples get distinct indices (bijection onto 0..N-1);
//                   invalid triples and unknown labels map to IndexSize; getInfo(N) throws.
#include "verif.h"
#include "pomerol/Lattice.h"
#include "pomerol/IndexClassification.h"

#ifndef NSITES
#define NSITES 2
#endif
#ifndef MAXORB
#define MAXORB 2
#endif
#ifndef MAXSPN
#define MAXSPN 2
#endif
#ifndef ORDER
#define ORDER 0
#endif
#ifndef LABELS
#define LABELS 0
#endif

using namespace Pomerol;
using namespace verif;

static const char* const labelsets[3][3] = {{"A", "B", "C"}, {"1", "10", "2"}, {"site_with_a_long_label_0", "b", "site_with_a_long_label_1"}};

extern "C" void h_main() {
    Lattice L;
    int orb[3], spn[3];
    static const char* const on[3] = {"orb0", "orb1", "orb2"};
    static const char* const sn[3] = {"spn0", "spn1", "spn2"};
    unsigned N = 0;
    bool hetero = false;
    for (int s = 0; s < NSITES; ++s) {
        orb[s] = (int)concretize(sym_int(on[s], 1, MAXORB));
        spn[s] = (int)concretize(sym_int(sn[s], 1, MAXSPN));
        L.addSite(labelsets[LABELS][s], orb[s], spn[s]);
        N += orb[s] * spn[s];
        if (s && (spn[s] != spn[0] || orb[s] != orb[0])) hetero = true;
    }
    if (hetero) reach("heterogeneous_sites");
    IndexClassification IC(L.getSiteMap());
    IC.prepare(ORDER != 0);
    reach("prepared");
    check(IC.getIndexSize() == N, "index space size == sum orbitals*spins");
    record_int("N", N);

    bool seen[32];
    for (unsigned i = 0; i < 32; ++i) seen[i] = false;
    for (unsigned i = 0; i < N; ++i) {
        IndexClassification::IndexInfo info = IC.getInfo(i);
        check(IC.getIndex(info) == i, "getIndex(getInfo(i)) == i");
    }
    for (int s = 0; s < NSITES; ++s)
        for (int o = 0; o < orb[s]; ++o)
            for (int z = 0; z < spn[s]; ++z) {
                std::string lab(labelsets[LABELS][s]);
                unsigned idx = IC.getIndex(lab, (unsigned short)o, (unsigned short)z);
                record_int("idx", idx);
                check(idx < N, "valid triple has an index below N");
                if (idx < N) {
                    check(!seen[idx], "distinct triples have distinct indices");
                    seen[idx] = true;
                    IndexClassification::IndexInfo info = IC.getInfo(idx);
                    check(info.SiteLabel == lab && info.Orbital == o && info.Spin == z, "getInfo(getIndex(s,o,z)) == (s,o,z)");
                }
            }
    // invalid triples
    for (int s = 0; s < NSITES; ++s) {
        std::string lab(labelsets[LABELS][s]);
        check(IC.getIndex(lab, (unsigned short)orb[s], 0) == N, "orbital out of range is not an index");
        check(IC.getIndex(lab, 0, (unsigned short)spn[s]) == N, "spin out of range is not an index");
    }
    check(IC.getIndex(std::string("no_such_site"), 0, 0) == N, "unknown label is not an index");
    bool threw = false;
    try { IC.getInfo(N); } catch (IndexClassification::exWrongIndex&) { threw = true; }
    check(threw, "getInfo(N) throws");
    reach("done");
}
