// Unit harness h_presets  (C04, part of C18/C20)
//
// Real code driven (through the PUBLIC calls): Lattice::addSite/addTerm, LatticePresets::add*, Lattice::Term::Presets::*,
//   IndexClassification::prepare/getIndex, IndexHamiltonian::prepare (Operator::operator*=, +=, normalize_and_insert,
//   erase_zero_monomial), Operator::actRight(monomial, ket).
// All amplitudes are SYMBOLIC reals (each either exactly 0 or |a| >= 1e-3, decided by a fork), so every comparison is a
// query valid for all parameter values.  The matrix <bra|H|ket> is assembled from the real monomial map with the real
// static Operator::actRight(monomial, ket); the reference matrix is assembled by this harness from the DOCUMENTATION
// formulas of LatticePresets.h with an independent Jordan-Wigner reference (ref_apply below):
//   addCoulombS : U sum_{a, s>s'} n_{a s} n_{a s'} + eps sum_{a,s} n_{a s}
//   addCoulombP : U sum_{a,s>s'} n_as n_as' + U' sum_{a!=a', s>s'} n_as n_a's' + (U'-J)/2 sum_{a!=a',s} n_as n_a's
//                 - J sum_{a!=a', s>s'} ( c+_as c+_a's' c_a's c_as' + c+_a's c+_a's' c_as c_as' ) + eps sum n
//                 (4-argument form: U' = U - 2J)
//   addLevel    : eps sum_{a,s} n_as
//   addMagnetization : mH sum_a 1/2 (n_a,up - n_a,down)
//   addSzSz     : J sum_a 1/2(n_{i a up} - n_{i a down}) 1/2(n_{j a up} - n_{j a down})
//   addSS       : J sum_a S_{i a} . S_{j a}  =  SzSz + J/2 sum_a (S+_{ia} S-_{ja} + S-_{ia} S+_{ja})
//   addHopping  : t c+_{i a s} c_{j a' s'} + h.c.   (8-arg), sums over spins / orbitals for the shorter forms
// Index order: the library own (real IndexClassification::getIndex).  Spin convention of Misc.h: enum spin {down, up}.
// Tolerance: the library erases monomials whose coefficient is below 100*epsilon, so entries are compared to 1e-12.
#include "verif.h"
#include "pomerol/Lattice.h"
#include "pomerol/LatticePresets.h"
#include "pomerol/IndexClassification.h"
#include "pomerol/IndexHamiltonian.h"

#ifndef CASE
#define CASE 1
#endif

#ifndef NOPS
#define NOPS 4
#endif
#ifndef ORDER_SPINS
#define ORDER_SPINS false
#endif
using namespace Pomerol;
using namespace verif;

static double mabs(double v) { return v < 0 ? -v : v; }

// ---- symbolic amplitude: exactly zero or at least 1e-3 in modulus ------------------------------------------------
static double amp(const char* name) {
    double a = sym_real(name);
    if (a == 0) return 0;
    assume(mabs(a) >= 1e-3);
    assume(mabs(a) <= 1e3);
    return a;
}

// ---- reference algebra -------------------------------------------------------------------------------------------
struct RefTerm { double coef; int n; bool cr[6]; int mode[6]; };
static RefTerm ref[256];
static int nref = 0;
static void radd(double coef, int n, const bool* cr, const int* mode) {
    RefTerm& t = ref[nref++];
    t.coef = coef; t.n = n;
    for (int i = 0; i < n; ++i) { t.cr[i] = cr[i]; t.mode[i] = mode[i]; }
}
static void r_n(double coef, int m) { bool c[2] = {true, false}; int md[2] = {m, m}; radd(coef, 2, c, md); }
static void r_hop(double coef, int m1, int m2) { bool c[2] = {true, false}; int md[2] = {m1, m2}; radd(coef, 2, c, md); }
static void r_nn(double coef, int m1, int m2) { bool c[4] = {true, false, true, false}; int md[4] = {m1, m1, m2, m2}; radd(coef, 4, c, md); }
static void r_4(double coef, bool c0, int m0, bool c1, int m1, bool c2, int m2, bool c3, int m3) {
    bool c[4] = {c0, c1, c2, c3}; int md[4] = {m0, m1, m2, m3}; radd(coef, 4, c, md);
}
// apply the operator string (right-most factor first) to the bit string; returns false if annihilated
static bool ref_apply(const RefTerm& t, unsigned ket, unsigned& bra, int& sign) {
    unsigned s = ket; sign = 1;
    for (int i = t.n - 1; i >= 0; --i) {
        int m = t.mode[i];
        bool occ = (s >> m) & 1;
        if (t.cr[i] == occ) return false;
        for (int j = 0; j < m; ++j) if ((s >> j) & 1) sign = -sign;
        s ^= (1u << m);
    }
    bra = s;
    return true;
}

static Lattice L;
static IndexClassification* IC;
static int idx(const char* site, int orb, int spin) {
    return (int)IC->getIndex(std::string(site), (unsigned short)orb, (unsigned short)spin);
}

static const int UP = Pomerol::up, DN = Pomerol::down;   // Misc.h: enum spin {down, up}

extern "C" void h_main() {
    // ---------------------------------------------------------------- lattice and documentation operator
#if CASE == 1   // one s site: CoulombS + Magnetization + Level
    L.addSite("A", 1, 2);
    IC = new IndexClassification(L.getSiteMap()); IC->prepare(false);
    double U = amp("U"), eps = amp("eps"), mH = amp("mH"), lev = amp("lev");
    LatticePresets::addCoulombS(&L, "A", U, eps);
    LatticePresets::addMagnetization(&L, "A", mH);
    LatticePresets::addLevel(&L, "A", lev);
    int au = idx("A", 0, UP), ad = idx("A", 0, DN);
    r_nn(U, ad, au); r_n(eps, au); r_n(eps, ad);
    r_n(0.5 * mH, au); r_n(-0.5 * mH, ad);
    r_n(lev, au); r_n(lev, ad);
    const int M = 2;
#elif CASE == 2  // two s sites: CoulombS, hopping (all orbitals/spins), SzSz between the sites
    L.addSite("A", 1, 2); L.addSite("B", 1, 2);
    IC = new IndexClassification(L.getSiteMap()); IC->prepare(ORDER_SPINS);
    double U = amp("U"), eps = amp("eps"), t = amp("t"), J = amp("J");
    LatticePresets::addCoulombS(&L, "A", U, eps);
    LatticePresets::addCoulombS(&L, "B", U, eps);
    LatticePresets::addHopping(&L, "A", "B", t);
    LatticePresets::addSzSz(&L, "A", "B", J);
    int au = idx("A", 0, UP), ad = idx("A", 0, DN), bu = idx("B", 0, UP), bd = idx("B", 0, DN);
    r_nn(U, ad, au); r_n(eps, au); r_n(eps, ad);
    r_nn(U, bd, bu); r_n(eps, bu); r_n(eps, bd);
    r_hop(t, au, bu); r_hop(t, bu, au); r_hop(t, ad, bd); r_hop(t, bd, ad);
    // J * 1/2(nAu - nAd) * 1/2(nBu - nBd)
    r_nn(0.25 * J, au, bu); r_nn(-0.25 * J, au, bd); r_nn(-0.25 * J, ad, bu); r_nn(0.25 * J, ad, bd);
    const int M = 4;
#elif CASE == 3  // two s sites: spin-spin exchange, spin-dependent hopping, level
    L.addSite("A", 1, 2); L.addSite("B", 1, 2);
    IC = new IndexClassification(L.getSiteMap()); IC->prepare(ORDER_SPINS);
    double J = amp("J"), t = amp("t"), lev = amp("lev"), tf = amp("tf");
    LatticePresets::addSS(&L, "A", "B", J);
    LatticePresets::addHopping(&L, "A", "B", t, 0, 0, UP);           // 7-arg: one spin
    LatticePresets::addHopping(&L, "A", "B", tf, 0, 0, UP, DN);      // 8-arg: spin-flip hopping
    LatticePresets::addLevel(&L, "B", lev);
    int au = idx("A", 0, UP), ad = idx("A", 0, DN), bu = idx("B", 0, UP), bd = idx("B", 0, DN);
    r_nn(0.25 * J, au, bu); r_nn(-0.25 * J, au, bd); r_nn(-0.25 * J, ad, bu); r_nn(0.25 * J, ad, bd);
    // J/2 (S+_A S-_B + S-_A S+_B),  S+ = c+_up c_dn
    r_4(0.5 * J, true, au, false, ad, true, bd, false, bu);
    r_4(0.5 * J, true, ad, false, au, true, bu, false, bd);
    r_hop(t, au, bu); r_hop(t, bu, au);
    r_hop(tf, au, bd); r_hop(tf, bd, au);
    r_n(lev, bu); r_n(lev, bd);
    const int M = 4;
#elif CASE == 4 || CASE == 5  // one p site (2 orbitals, 2 spins): Kanamori, 5- and 4-argument forms
    L.addSite("A", 2, 2);
    IC = new IndexClassification(L.getSiteMap()); IC->prepare(ORDER_SPINS);
    double U = amp("U"), J = amp("J"), eps = amp("eps");
#if CASE == 4
    double Up = amp("Up");
    LatticePresets::addCoulombP(&L, "A", U, Up, J, eps);
#else
    double Up = U - 2.0 * J;
    LatticePresets::addCoulombP(&L, "A", U, J, eps);
#endif
    int m[2][2];
    for (int a = 0; a < 2; ++a) for (int s = 0; s < 2; ++s) m[a][s] = idx("A", a, s);
    for (int a = 0; a < 2; ++a) {
        r_nn(U, m[a][DN], m[a][UP]);                     // s > s' : (down, up)
        for (int s = 0; s < 2; ++s) r_n(eps, m[a][s]);
        for (int b = 0; b < 2; ++b) {
            if (a == b) continue;
            r_nn(Up, m[a][DN], m[b][UP]);                // U' sum_{a!=a', s>s'} n_as n_a's'
            for (int s = 0; s < 2; ++s) r_nn(0.5 * (Up - J), m[a][s], m[b][s]);
            // -J ( c+_{a s} c+_{a' s'} c_{a' s} c_{a s'} + c+_{a' s} c+_{a' s'} c_{a s} c_{a s'} ),  s = down, s' = up
            r_4(-J, true, m[a][DN], true, m[b][UP], false, m[b][DN], false, m[a][UP]);
            r_4(-J, true, m[b][DN], true, m[b][UP], false, m[a][DN], false, m[a][UP]);
        }
    }
    const int M = 4;
#elif CASE == 6  // same-site variants of SzSz / SS on one s site, plus a second site to keep 4 modes
    L.addSite("A", 1, 2); L.addSite("B", 1, 2);
    IC = new IndexClassification(L.getSiteMap()); IC->prepare(ORDER_SPINS);
    double J = amp("J"), K = amp("K");
    LatticePresets::addSzSz(&L, "A", "A", J);
    LatticePresets::addSS(&L, "B", "B", K);
    int au = idx("A", 0, UP), ad = idx("A", 0, DN), bu = idx("B", 0, UP), bd = idx("B", 0, DN);
    // J/4 (nu - nd)^2 as an operator product
    r_nn(0.25 * J, au, au); r_nn(-0.25 * J, au, ad); r_nn(-0.25 * J, ad, au); r_nn(0.25 * J, ad, ad);
    r_nn(0.25 * K, bu, bu); r_nn(-0.25 * K, bu, bd); r_nn(-0.25 * K, bd, bu); r_nn(0.25 * K, bd, bd);
    r_4(0.5 * K, true, bu, false, bd, true, bd, false, bu);
    r_4(0.5 * K, true, bd, false, bu, true, bu, false, bd);
    const int M = 4;
#elif CASE == 7  // raw user terms of 2, 4 and 6 operators with symbolic creation/annihilation pattern
    L.addSite("A", 1, 2); L.addSite("B", 2, 1);
    IC = new IndexClassification(L.getSiteMap()); IC->prepare(false);
    const char* sl[4] = {"A", "A", "B", "B"}; int so[4] = {0, 0, 0, 1}; int ss[4] = {0, 1, 0, 0};
    int md[4]; for (int k = 0; k < 4; ++k) md[k] = idx(sl[k], so[k], ss[k]);
    double v = amp("v"), w = amp("w");
    {   // ONE user term of NOPS operators: which of the 4 modes each factor acts on and whether it creates or
        // annihilates are symbolic choices (pat, sel); a hopping term is added as well so that H has several monomials
        const int N = NOPS;
        long pat = concretize(sym_int("pat", 0, (1L << N) - 1));
        long sel = concretize(sym_int("sel", 0, 15));
        bool seq[6]; std::string labs[6]; unsigned short orbs[6], spins[6]; bool cr[6]; int mode[6];
        for (int i = 0; i < N; ++i) {
            int k = (int)((sel + i * (1 + (sel >> 2))) & 3);
            seq[i] = (pat >> i) & 1; labs[i] = sl[k]; orbs[i] = (unsigned short)so[k]; spins[i] = (unsigned short)ss[k];
            cr[i] = seq[i]; mode[i] = md[k];
        }
        Lattice::Term T(N, seq, v, labs, orbs, spins);
        L.addTerm(&T);
        radd(v, N, cr, mode);
        LatticePresets::addHopping(&L, "A", "B", w, 0, 1, 1, 0);
        r_hop(w, md[1], md[3]); r_hop(w, md[3], md[1]);
    }
    const int M = 4;
#endif

    // ---------------------------------------------------------------- library Hamiltonian
    IndexHamiltonian H(&L, *IC);
    H.prepare();
    reach("prepared");
    record_int("monomials", (long)H.monomials.size());

    const unsigned D = 1u << M;
    static double Himpl[16][16], Href[16][16];
    for (unsigned k = 0; k < D; ++k)
        for (unsigned b = 0; b < D; ++b) { Himpl[b][k] = 0; Href[b][k] = 0; }
    for (unsigned k = 0; k < D; ++k) {
        FockState ket(M, k);
        for (Operator::monomials_map_t::const_iterator it = H.monomials.begin(); it != H.monomials.end(); ++it) {
            boost::tuple<FockState, MelemType> r = Operator::actRight(it->first, ket);
            FockState bra = boost::get<0>(r);
            if (bra.size() == 0) continue;      // ERROR_FOCK_STATE: annihilated
            Himpl[bra.to_ulong()][k] += boost::get<1>(r) * it->second;
        }
        for (int q = 0; q < nref; ++q) {
            unsigned b; int sg;
            if (ref_apply(ref[q], k, b, sg)) Href[b][k] += sg * ref[q].coef;
        }
    }
    for (unsigned k = 0; k < D; ++k)
        for (unsigned b = 0; b < D; ++b) {
            check(mabs(Himpl[b][k] - Href[b][k]) <= 1e-12, "<bra|H|ket> == documented operator");
#if CASE != 7
            if (b < k) check(mabs(Himpl[b][k] - Himpl[k][b]) <= 1e-12, "H is Hermitian");
#endif
        }
    record("H[1][1]", Himpl[1][1]); record("H[3][3]", Himpl[3][3]); record("H[D-1][D-1]", Himpl[D - 1][D - 1]);
    record("H[1][2]", Himpl[1][2]); record("H[6][9]", Himpl[6 % D][9 % D]);

#if CASE == 5 || CASE == 3
    // total spin raising operator S+ = sum_{site,orbital} c+_up c_dn commutes with H (rotational invariance)
    static double Sp[16][16];
    for (unsigned k = 0; k < D; ++k) for (unsigned b = 0; b < D; ++b) Sp[b][k] = 0;
    {
        RefTerm t; t.coef = 1; t.n = 2; t.cr[0] = true; t.cr[1] = false;
#if CASE == 5
        int ups[2] = {m[0][UP], m[1][UP]}, dns[2] = {m[0][DN], m[1][DN]};
#else
        int ups[2] = {au, bu}, dns[2] = {ad, bd};
#endif
        for (int a = 0; a < 2; ++a) {
            t.mode[0] = ups[a]; t.mode[1] = dns[a];
            for (unsigned k = 0; k < D; ++k) { unsigned b; int sg; if (ref_apply(t, k, b, sg)) Sp[b][k] += sg; }
        }
    }
#if CASE == 3
    // only the exchange part is rotationally invariant: require it when the spin-dependent hoppings are switched off
    if (t == 0 && tf == 0) {
#else
    {
#endif
        reach("commutator_checked");
        for (unsigned b = 0; b < D; ++b)
            for (unsigned k = 0; k < D; ++k) {
                double c = 0;
                for (unsigned x = 0; x < D; ++x) c += Himpl[b][x] * Sp[x][k] - Sp[b][x] * Himpl[x][k];
                check(mabs(c) <= 1e-11, "[H, S+_total] == 0");
            }
    }
#endif
    reach("done");
}
