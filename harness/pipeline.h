// Fixture shared by the mid-pipeline harnesses: a small CONCRETE model is pushed through the real public pipeline up to
// the block structure (Lattice -> IndexClassification -> IndexHamiltonian -> Symmetrizer -> StatesClassification), then the
// eigen-data of every Hamiltonian block (eigenvalues and eigenvector matrix) are injected as SYMBOLIC values instead of
// running Eigen's iterative SelfAdjointEigenSolver, which cannot be encoded (DESIGN section 6).  Everything downstream
// (density matrix, field operators, Green's functions ...) is then the real code running on arbitrary eigen-data of the
// right shape.
//
// MODEL 0: Hubbard atom, site A(1 orbital, 2 spins); default analysis: 4 blocks of size 1
// MODEL 1: two spinless sites A(1,1), B(1,1) with hopping; default analysis (N): blocks of size 1,2,1
// MODEL 2: same lattice, symmetries ignored: one block of size 4
// MODEL 3: Hubbard dimer A(1,2), B(1,2); default analysis (N,Sz): 9 blocks of size 1,2,2,1,4,1,2,2,1
#ifndef VERIF_PIPELINE_H
#define VERIF_PIPELINE_H
#include "prestate.h"
#include "pomerol/Lattice.h"
#include "pomerol/LatticePresets.h"
#include "pomerol/IndexClassification.h"
#include "pomerol/IndexHamiltonian.h"
#include "pomerol/Symmetrizer.h"
#include "pomerol/StatesClassification.h"
#include "pomerol/Hamiltonian.h"
#include "pomerol/DensityMatrix.h"
#include "pomerol/FieldOperator.h"

#ifndef MODEL
#define MODEL 1
#endif

namespace pipeln {
using namespace Pomerol;

struct Model {
    Lattice L;
    IndexClassification* IC;
    IndexHamiltonian* HS;
    Symmetrizer* Symm;
    StatesClassification* S;
    Hamiltonian* H;
    int M;          // modes
    int NB;         // blocks
    Model() {
#if MODEL == 0
        L.addSite("A", 1, 2);
        LatticePresets::addCoulombS(&L, "A", 2.0, -1.0);
#elif MODEL == 1 || MODEL == 2
        L.addSite("A", 1, 1); L.addSite("B", 1, 1);
        LatticePresets::addLevel(&L, "A", -0.5); LatticePresets::addLevel(&L, "B", 0.25);
        LatticePresets::addHopping(&L, "A", "B", 1.0);
#elif MODEL == 3
        L.addSite("A", 1, 2); L.addSite("B", 1, 2);
        LatticePresets::addCoulombS(&L, "A", 2.0, -1.0); LatticePresets::addCoulombS(&L, "B", 2.0, -1.0);
        LatticePresets::addHopping(&L, "A", "B", 1.0);
#endif
        IC = new IndexClassification(L.getSiteMap());
        IC->prepare(false);
        M = (int)IC->getIndexSize();
        HS = new IndexHamiltonian(&L, *IC);
        HS->prepare();
        Symm = new Symmetrizer(*IC, *HS);
#if MODEL == 2
        Symm->compute(true);
#else
        Symm->compute(false);
#endif
        S = new StatesClassification(*IC, *Symm);
        S->compute();
        NB = (int)S->NumberOfBlocks();
        H = new Hamiltonian(*IC, *HS, *S);
        H->parts.resize(NB);
        for (int b = 0; b < NB; ++b) H->parts[b].reset(new HamiltonianPart(*IC, *HS, *S, b));
    }
    int bsize(int b) const { return (int)S->getBlockSize(b); }
    // inject symbolic eigenvalues (and, if with_vectors, a symbolic eigenvector matrix; 1x1 blocks get U = 1)
    void inject(bool with_vectors) {
        for (int b = 0; b < NB; ++b) {
            HamiltonianPart& p = *H->parts[b];
            int n = bsize(b);
            p.Eigenvalues.resize(n);
            for (int i = 0; i < n; ++i) p.Eigenvalues(i) = verif::sym_real(pre::nm("E", b, i));
            p.H.resize(n, n);
            for (int r = 0; r < n; ++r) for (int c = 0; c < n; ++c) {
                if (n == 1 || !with_vectors) p.H(r, c) = (r == c) ? 1.0 : 0.0;
                else p.H(r, c) = pre::sym_melem("U", b, r * n + c);
            }
            p.Status = ComputableObject::Computed;
        }
        H->computeGroundEnergy();
        H->Status = ComputableObject::Computed;
    }
};
}  // namespace pipeln
#endif
