// Pre-state builders shared by the unit harnesses.
//
// A unit harness starts in the middle of the pipeline: it builds the part objects
// (HamiltonianPart, DensityMatrixPart, *OperatorPart, bimaps ...) DIRECTLY in raw
// storage with symbolic contents constrained only by the representation invariant
// that the producing stage guarantees (and that the producer's own harness checks).
// Members that the unit under test must not touch (references to the index /
// state classification, vtable pointers) are left uninitialised on purpose: the
// engines' uninitialised-read monitor reports any access to them.
//
// Compiled with -fno-access-control.
#ifndef VERIF_PRESTATE_H
#define VERIF_PRESTATE_H

#include <new>
#include "verif.h"
#include "pomerol/Misc.h"
#include "pomerol/HamiltonianPart.h"
#include "pomerol/DensityMatrixPart.h"
#include "pomerol/FieldOperatorPart.h"

namespace pre {
using namespace Pomerol;

// ---- names ------------------------------------------------------------------
// returns a pointer to a static buffer "<prefix><a>" / "<prefix><a>_<b>"; the engines read it at once
inline const char* nm(const char* prefix, int a = -1, int b = -1, int c = -1) {
    static char buf[64];
    int k = 0;
    for (const char* p = prefix; *p && k < 40; ++p) buf[k++] = *p;
    int idx[3] = {a, b, c};
    for (int t = 0; t < 3; ++t) {
        if (idx[t] < 0) break;
        if (t) buf[k++] = '_';
        int v = idx[t];
        if (v >= 10) buf[k++] = char('0' + (v / 10) % 10);
        buf[k++] = char('0' + v % 10);
    }
    buf[k] = 0;
    return buf;
}

template <class T> inline T& raw() {
    void* p = ::operator new(sizeof(T));
    return *reinterpret_cast<T*>(p);
}

inline MelemType sym_melem(const char* prefix, int a, int b = -1) {
#ifdef POMEROL_COMPLEX_MATRIX_ELEMENTS
    double re = verif::sym_real(nm(prefix, a, b, 0));
    double im = verif::sym_real(nm(prefix, a, b, 1));
    return MelemType(re, im);
#else
    return verif::sym_real(nm(prefix, a, b));
#endif
}

inline MelemType mconj(MelemType v) {
#ifdef POMEROL_COMPLEX_MATRIX_ELEMENTS
    return std::conj(v);
#else
    return v;
#endif
}

// ---- HamiltonianPart with symbolic eigenvalues (status Computed) -------------
inline HamiltonianPart& hpart(int n, const char* prefix) {
    HamiltonianPart& h = raw<HamiltonianPart>();
    new (&h.H) MatrixType();
    new (&h.Eigenvalues) RealVectorType(n);
    for (int i = 0; i < n; ++i) h.Eigenvalues(i) = verif::sym_real(nm(prefix, i));
    h.Status = ComputableObject::Computed;
    return h;
}

// ---- DensityMatrixPart with symbolic weights w >= 0 --------------------------
inline DensityMatrixPart& dmpart(const HamiltonianPart& h, int n, double beta, const char* prefix) {
    DensityMatrixPart& d = raw<DensityMatrixPart>();
    new (static_cast<Thermal*>(&d)) Thermal(beta);
    new (&d.weights) RealVectorType(n);
    for (int i = 0; i < n; ++i) {
        double w = verif::sym_real(nm(prefix, i));
        verif::assume(w >= 0);
        d.weights(i) = w;
    }
    d.retained = true;
    return d;
}

// ---- dense symbolic matrix with a symbolic sparsity pattern -------------------
struct Dense {
    int rows, cols;
    bool present[4][4];
    MelemType v[4][4];
};

// pattern bits are one sym_int "<prefix>pat" in [0, 2^(rows*cols)-1] that is concretised (forked)
inline Dense dense(int rows, int cols, const char* prefix) {
    Dense d;
    d.rows = rows; d.cols = cols;
    long pat = verif::concretize(verif::sym_int(nm(prefix, -1), 0, (1L << (rows * cols)) - 1));
    for (int r = 0; r < rows; ++r)
        for (int c = 0; c < cols; ++c) {
            d.present[r][c] = (pat >> (r * cols + c)) & 1;
            d.v[r][c] = d.present[r][c] ? sym_melem(prefix, r, c) : MelemType(0);
        }
    return d;
}

// compressed sparse copies, storage allocated at exactly nnz elements
template <class SM> inline void fill_sparse(SM& m, const Dense& d) {
    m.resize(d.rows, d.cols);
    int nnz = 0;
    for (int r = 0; r < d.rows; ++r) for (int c = 0; c < d.cols; ++c) nnz += d.present[r][c];
    m.reserve(nnz);
    const bool rowmajor = SM::IsRowMajor;
    int outer = rowmajor ? d.rows : d.cols, inner = rowmajor ? d.cols : d.rows;
    for (int o = 0; o < outer; ++o) {
        m.startVec(o);
        for (int i = 0; i < inner; ++i) {
            int r = rowmajor ? o : i, c = rowmajor ? i : o;
            if (d.present[r][c]) m.insertBackByOuterInner(o, i) = d.v[r][c];
        }
    }
    m.finalize();
    m.data().squeeze();
}

template <class Part> inline Part& oppart(const Dense& d) {
    Part& p = raw<Part>();
    new (&p.elementsRowMajor) RowMajorMatrixType();
    new (&p.elementsColMajor) ColMajorMatrixType();
    fill_sparse(p.elementsRowMajor, d);
    fill_sparse(p.elementsColMajor, d);
    p.Status = ComputableObject::Computed;
    *const_cast<RealType*>(&p.MatrixElementTolerance) = 1e-8;
    return p;
}

}  // namespace pre
#endif
