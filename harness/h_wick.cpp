// Unit harness h_wick  (C12)
// End-to-end chain on free-fermion inputs for which no eigen-solver is needed: two modes, diagonal single-particle matrix
// h = diag(eps0, eps1).  The Fock basis is the eigenbasis: eigenvector matrices are the identity, the eigenvalue of a Fock
// state is the sum of the eps_i of its occupied modes (SYMBOLIC eps_i), the statistical weights are the products of SYMBOLIC
// occupation factors x_i in (0,1) (occupied) and 1-x_i (empty).  Both partitions: MODEL 1 (blocks by particle number, sizes
// 1,2,1) and MODEL 2 (one block of four states).
// Real code run: FieldOperatorContainer::prepareAll/computeAll, GreensFunction::prepare/compute/operator(), TwoParticleGF::prepare/
//   compute (single-rank dispatcher)/operator(), Vertex4::value.
// Obligations: G_ii(z) (z - eps_i) == 1 and G_ij == 0 (i != j) for symbolic z; for the index quadruple and the concrete
// Matsubara triple selected by the (split) inputs, with symbolic beta: Vertex4::value(n1,n2,n3) == 0 (Wick's theorem) - both as
// identities in (eps, x, beta, z).
// Non-degenerate instance: eps0, eps1, eps0 - eps1, eps0 + eps1 are at least 1e-3 away from 0 (energies that differ by less than the
// resonance tolerance without being equal are outside the claim; the exactly degenerate instance eps1 == eps0 is DEGEN=1).
// Occupation factors are in generic position (see the assumptions below): truncation of tiny residues is the subject of C01/C02.
#include "pipeline.h"
#include "pomerol/FieldOperatorContainer.h"
#include "pomerol/GreensFunction.h"
#include "pomerol/TwoParticleGF.h"
#include "pomerol/Vertex4.h"
using namespace Pomerol;
using namespace verif;
#ifndef DEGEN
#define DEGEN 0
#endif
static double mabs(double v) { return v < 0 ? -v : v; }

extern "C" void h_main() {
    pipeln::Model m;
    m.inject(false);
    double eps[2], x[2];
    eps[0] = sym_real("eps0"); x[0] = sym_real("x0");
#if DEGEN
    eps[1] = eps[0]; x[1] = x[0];
#else
    eps[1] = sym_real("eps1"); x[1] = sym_real("x1");
    assume(mabs(eps[0] - eps[1]) >= 1e-3); assume(mabs(eps[0] + eps[1]) >= 1e-3);
#endif
    // generic position: occupation factors away from 0, 1/2 and 1 and from each other, so that no residue and no weight
    // difference falls into the library's truncation bands (1e-8 for residues, 1e-16 for coefficients) without being exactly 0
    for (int i = 0; i < 2; ++i) { assume(x[i] >= 1e-3); assume(x[i] <= 1 - 1e-3); assume(mabs(2 * x[i] - 1) >= 1e-3); assume(mabs(eps[i]) >= 1e-3); }
#if !DEGEN
    assume(mabs(x[0] - x[1]) >= 1e-3); assume(mabs(x[0] + x[1] - 1) >= 1e-3);
#endif
    double beta = sym_real("beta");
    assume(beta > 0);
    DensityMatrix rho(*m.S, *m.H, beta);
    rho.prepare();
    for (int b = 0; b < m.NB; ++b)
        for (int i = 0; i < m.bsize(b); ++i) {
            FockState f = m.S->getFockState(BlockNumber(b), i);
            double e = 0, w = 1;
            for (int k = 0; k < 2; ++k) { if (f.test(k)) { e += eps[k]; w *= x[k]; } else w *= (1 - x[k]); }
            m.H->parts[b]->Eigenvalues(i) = e;
            rho.parts[b]->weights(i) = w;
        }
    rho.Status = ComputableObject::Computed;
    FieldOperatorContainer Ops(*m.IC, *m.S, *m.H);
    Ops.prepareAll(); Ops.computeAll();
    reach("operators_computed");

    const long mode = concretize(sym_int("mode", 0, 1));       // 0: single-particle checks, 1: vertex
    if (mode == 0) {
        double zr = sym_real("zre"), zi = sym_real("zim");
        assume(zi != 0);
        for (int i = 0; i < 2; ++i) for (int j = 0; j < 2; ++j) {
            GreensFunction G(*m.S, *m.H, Ops.getAnnihilationOperator(i), Ops.getCreationOperator(j), rho);
            G.prepare(); G.compute();
            ComplexType g = G(ComplexType(zr, zi));
            if (i == j) {
                ComplexType one = g * (ComplexType(zr, zi) - eps[i]);
                check_eq(one.real(), 1.0, "G_ii(z) (z - eps_i) == 1 (real part)");
                check_eq(one.imag(), 0.0, "G_ii(z) (z - eps_i) == 1 (imaginary part)");
            } else {
                check_eq(g.real(), 0.0, "G_ij(z) == 0 for i != j (real part)");
                check_eq(g.imag(), 0.0, "G_ij(z) == 0 for i != j (imaginary part)");
            }
        }
        reach("propagator_checked");
        return;
    }
    const long q = concretize(sym_int("quad", 0, 15));
    const int i1 = (q >> 3) & 1, i2 = (q >> 2) & 1, i3 = (q >> 1) & 1, i4 = q & 1;
    static const long FR[7][3] = {{0, 1, -2}, {1, 0, 1}, {0, 1, 1}, {-1, -1, -1}, {0, -1, 1}, {0, -1, 0}, {-2, 1, 1}};
    const long f = concretize(sym_int("freq", 0, 6));
    const long n1 = FR[f][0], n2 = FR[f][1], n3 = FR[f][2];
    TwoParticleGF X(*m.S, *m.H, Ops.getAnnihilationOperator(i1), Ops.getAnnihilationOperator(i2), Ops.getCreationOperator(i3), Ops.getCreationOperator(i4), rho);
    X.prepare(); X.compute();
    GreensFunction G13(*m.S, *m.H, Ops.getAnnihilationOperator(i1), Ops.getCreationOperator(i3), rho); G13.prepare(); G13.compute();
    GreensFunction G24(*m.S, *m.H, Ops.getAnnihilationOperator(i2), Ops.getCreationOperator(i4), rho); G24.prepare(); G24.compute();
    GreensFunction G14(*m.S, *m.H, Ops.getAnnihilationOperator(i1), Ops.getCreationOperator(i4), rho); G14.prepare(); G14.compute();
    GreensFunction G23(*m.S, *m.H, Ops.getAnnihilationOperator(i2), Ops.getCreationOperator(i3), rho); G23.prepare(); G23.compute();
    Vertex4 V(X, G13, G24, G14, G23);
    ComplexType v = V.value(n1, n2, n3);
    if (!X.isVanishing()) reach("non_vanishing_chi");
    check_eq(v.real(), 0.0, "vertex of a quadratic model vanishes (real part)");
    check_eq(v.imag(), 0.0, "vertex of a quadratic model vanishes (imaginary part)");
    reach("vertex_checked");
}
