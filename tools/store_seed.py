#!/usr/bin/env python3
"""store a confirmed seeded change:  store_seed.py R2C06 C06 "<needs_to_manifest>"   (reads /tmp/mut/<id>/demo and /tmp/mut/<id>.confirm.log)"""
import sys, json, os, shutil, subprocess
sid, prop, needs = sys.argv[1], sys.argv[2], sys.argv[3]
src = '/tmp/mut/%s/demo' % sid
dst = '/verif/seeded/%s' % sid
os.makedirs(dst, exist_ok=True)
for f in ('patch.diff', 'demo.cpp', 'run.sh'):
    shutil.copy(os.path.join(src, f), os.path.join(dst, f))
log = [l.rstrip('\n') for l in open('/tmp/mut/%s.confirm.log' % sid)]
keep = [l for l in log if l.startswith('==') or 'SAME_DIFF' in l or 'tests passed' in l or 'tests failed' in l or l.startswith('exit=')]
title = ''
for l in open('/verif/properties.jsonl'):
    d = json.loads(l)
    if d['id'] == prop: title = d['title']
base = subprocess.run(['git', '-C', '/repo', 'rev-parse', '--short', 'HEAD'], capture_output=True, text=True).stdout.strip()
meta = dict(seed_id=sid, breaks_property=prop, property_title=title, needs_to_manifest=needs,
            produced_by='independent sub-agent (round 2, 3 or 4) given only the property text, the hint to avoid the round-1 location, and a scratch worktree of /repo',
            confirmed_by_me=dict(commands='/tmp/mut/confirm.sh %s : ninja; ctest -j8 (with change); demo/run.sh (with change); git checkout -- src include; ninja; demo/run.sh (without change)' % sid,
                                 result='see log_excerpt', log_excerpt=keep),
            patch_base='%s (/repo HEAD with all fix: commits)' % base)
json.dump(meta, open(os.path.join(dst, 'meta.json'), 'w'), indent=1)
print('stored', dst)
