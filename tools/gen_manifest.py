#!/usr/bin/env python3
"""regenerates MANIFEST.json from vlib/props.py (claimed checks) and tools/not_applicable.json"""
import json, os, sys
sys.path.insert(0, os.path.dirname(os.path.dirname(os.path.abspath(__file__))))
from vlib import props
V = os.path.dirname(os.path.dirname(os.path.abspath(__file__)))
allp = [json.loads(l) for l in open(os.path.join(V, 'properties.jsonl'))]
na_file = os.path.join(V, 'tools', 'not_applicable.json')
na_reasons = json.load(open(na_file)) if os.path.exists(na_file) else {}
checks = []
for p in allp:
    pid = p['id']
    if pid not in props.PROPS:
        continue
    s = props.PROPS[pid]
    checks.append(dict(
        property_id=pid,
        quick_cmd='./vcheck %s --tier quick' % pid,
        thorough_cmd='./vcheck %s --tier thorough' % pid,
        evidence_file='/verif/evidence/%s.json' % pid,
        replay_cmd_template='./vcheck %s --replay {path}' % pid,
        engine=s.get('engine', 'E2'),
        technique=s.get('technique', 'bounded symbolic execution of the LLVM IR of the real code (own executor) with z3 deciding every check; native replay of counterexamples'),
        level_claimed=dict(category='model_checking',
                           text=s.get('claim', ''), design_ref='DESIGN.md Part I (I.2, as built); Part II section 5/' + pid + ' (plan)'),
        level_note='bounds: %s | assumptions: %s | outside the claim: %s' % (
            json.dumps(s.get('bounds')), '; '.join(s.get('assumptions', [])), '; '.join(s.get('outside', [])))))
na = []
for p in allp:
    if p['id'] not in props.PROPS:
        na.append(dict(property_id=p['id'], reason=na_reasons.get(p['id'], 'no check registered yet (framework under construction; see DESIGN.md section 5)')))
m = dict(version=1,
         setup_cmd='./setup.sh',
         hooks=dict(guard='POMEROL_VERIF', enable='-DPOMEROL_VERIF is passed to every verification compile (no guarded source change exists in /repo: private state is reached with -fno-access-control, stubs are link-time overrides)',
                    baseline_off_cmd='cmake -G Ninja -B /repo/_build -S /repo -DCMAKE_BUILD_TYPE=RelWithDebInfo -DTesting=ON -DCMAKE_CXX_FLAGS=-Wno-error && cmake --build /repo/_build && cd /repo/_build && OMPI_ALLOW_RUN_AS_ROOT=1 OMPI_ALLOW_RUN_AS_ROOT_CONFIRM=1 ctest -j8 --timeout 900',
                    source_commits=[], add_only=True),
         engines=[dict(name='E2 irs', path='vlib/irs.py', serves_properties=sorted(k for k, v in props.PROPS.items() if v.get('engine', 'E2') != 'E1'),
                       kind_free_text='path-forking symbolic executor of LLVM IR compiled from /repo on every run; integers as bit-vectors, doubles as exact reals (division-free), z3 decides every branch and check.  (The IR -> C -> CBMC engine of the original plan was not built; see DESIGN.md Part I.)')],
         checks=checks, not_applicable=na,
         notes='fix: commits in /repo and known findings are listed in known_findings.jsonl; seeded changes used to test the checks are in seeded/')
json.dump(m, open(os.path.join(V, 'MANIFEST.json'), 'w'), indent=1)
print('MANIFEST.json: %d checks, %d not_applicable' % (len(checks), len(na)))
