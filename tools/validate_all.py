#!/usr/bin/env python3
"""validate MANIFEST.json and every evidence file against the published schemas"""
import json, glob, sys, jsonschema
ok = True
m = json.load(open('/verif/MANIFEST.json'))
jsonschema.validate(m, json.load(open('/root/.vp/MANIFEST.schema.json')))
es = json.load(open('/root/.vp/EVIDENCE.schema.json'))
ids = [c['property_id'] for c in m['checks']]
for pid in ids:
    p = '/verif/evidence/%s.json' % pid
    try:
        e = json.load(open(p)); jsonschema.validate(e, es)
        print(pid, 'ok', e.get('tier'), 'violations=%s' % e.get('violations'), 'wall=%.0fs' % e.get('wall_s', 0))
    except Exception as ex:
        ok = False; print(pid, 'INVALID', str(ex)[:200])
sys.exit(0 if ok else 1)
