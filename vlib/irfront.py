"""LLVM-14 textual IR front end (typed pointers) shared by both engines.

Parses one linked .ll module into Python data:
  Module.types     name -> Type            (named struct types)
  Module.globals   name -> Global          (variables, with constant initialisers)
  Module.aliases   name -> target name
  Module.funcs     name -> Function        (declarations have no blocks)

Unsupported constructs raise UnsupportedIR; the engines turn that into exit 2 of
the affected harness (never a pass).
"""
import re
from fractions import Fraction
import struct


class UnsupportedIR(Exception):
    pass


# --------------------------------------------------------------------------
# types
# --------------------------------------------------------------------------
class Type:
    __slots__ = ('k', 'bits', 'elem', 'n', 'fields', 'packed', 'name', 'ret', 'params', 'vararg',
                 '_size', '_align', '_offs')

    def __init__(self, k, **kw):
        self.k = k
        self.bits = kw.get('bits')
        self.elem = kw.get('elem')
        self.n = kw.get('n')
        self.fields = kw.get('fields')
        self.packed = kw.get('packed', False)
        self.name = kw.get('name')
        self.ret = kw.get('ret')
        self.params = kw.get('params')
        self.vararg = kw.get('vararg', False)
        self._size = None
        self._align = None
        self._offs = None

    def __repr__(self):
        k = self.k
        if k == 'int':
            return 'i%d' % self.bits
        if k in ('double', 'float', 'void', 'label', 'metadata', 'x86_fp80', 'token'):
            return k
        if k == 'ptr':
            return '%r*' % (self.elem,)
        if k == 'array':
            return '[%d x %r]' % (self.n, self.elem)
        if k == 'vector':
            return '<%d x %r>' % (self.n, self.elem)
        if k == 'struct':
            if self.name:
                return '%' + self.name
            return ('<{%s}>' if self.packed else '{%s}') % ', '.join(map(repr, self.fields or []))
        if k == 'func':
            return '%r (%s)' % (self.ret, ', '.join(map(repr, self.params)))
        if k == 'opaque':
            return 'opaque'
        return k


VOID = Type('void')
DOUBLE = Type('double')
FLOAT = Type('float')
LABEL = Type('label')
METADATA = Type('metadata')
FP80 = Type('x86_fp80')
TOKEN = Type('token')
_INTS = {}


def IntT(bits):
    t = _INTS.get(bits)
    if t is None:
        t = _INTS[bits] = Type('int', bits=bits)
    return t


I1, I8, I16, I32, I64 = IntT(1), IntT(8), IntT(16), IntT(32), IntT(64)
_PTRS = {}


def PtrT(elem):
    t = _PTRS.get(id(elem))
    if t is None:
        t = _PTRS[id(elem)] = Type('ptr', elem=elem)
    return t


I8P = PtrT(I8)


def sizeof(t):
    if t._size is not None:
        return t._size
    k = t.k
    if k == 'int':
        s = (t.bits + 7) // 8
        # i1..i8 -> 1, i16 -> 2, i32 -> 4, i64 -> 8, i128 -> 16
        if s > 8:
            s = 16
        elif s > 4:
            s = 8
        elif s > 2:
            s = 4
    elif k == 'double':
        s = 8
    elif k == 'float':
        s = 4
    elif k == 'x86_fp80':
        s = 16
    elif k == 'ptr':
        s = 8
    elif k == 'array':
        s = t.n * sizeof(t.elem)
    elif k == 'vector':
        s = t.n * sizeof(t.elem)
    elif k == 'struct':
        _layout(t)
        s = t._size
    elif k == 'func':
        s = 1
    elif k == 'void':
        s = 1
    else:
        raise UnsupportedIR('sizeof %r' % (t,))
    t._size = s
    return s


def alignof(t):
    if t._align is not None:
        return t._align
    k = t.k
    if k in ('int', 'double', 'float', 'ptr'):
        a = min(sizeof(t), 16)
        if k == 'int' and t.bits > 64:
            a = 16
    elif k == 'x86_fp80':
        a = 16
    elif k in ('array', 'vector'):
        a = alignof(t.elem)
    elif k == 'struct':
        _layout(t)
        a = t._align
    else:
        a = 1
    t._align = a
    return a


def _layout(t):
    if t._offs is not None:
        return
    if t.fields is None:
        raise UnsupportedIR('layout of opaque struct %s' % t.name)
    off = 0
    al = 1
    offs = []
    for f in t.fields:
        if not t.packed:
            a = alignof(f)
            al = max(al, a)
            off = (off + a - 1) // a * a
        offs.append(off)
        off += sizeof(f)
    if not t.packed:
        off = (off + al - 1) // al * al
    t._offs = offs
    t._size = off
    t._align = al


def field_offset(t, i):
    _layout(t)
    return t._offs[i]


# --------------------------------------------------------------------------
# values (operands / constants)
# --------------------------------------------------------------------------
class Val:
    """k: 'local','global','int','fp','null','undef','zero','agg','str','cexpr','meta','asm' """
    __slots__ = ('k', 'v', 'ty', 'args', 'op', 'extra')

    def __init__(self, k, v=None, ty=None, args=None, op=None, extra=None):
        self.k = k
        self.v = v
        self.ty = ty
        self.args = args
        self.op = op
        self.extra = extra

    def __repr__(self):
        if self.k == 'cexpr':
            return 'cexpr(%s %r)' % (self.op, self.args)
        return '%s:%r' % (self.k, self.v)


class Instr:
    __slots__ = ('op', 'res', 'ty', 'ops', 'extra', 'text', 'h')

    def __init__(self, op, res=None, ty=None, ops=None, extra=None, text=''):
        self.op = op
        self.res = res
        self.ty = ty
        self.ops = ops or []
        self.extra = extra
        self.text = text
        self.h = None

    def __repr__(self):
        return self.text


class Block:
    __slots__ = ('name', 'instrs', 'phis')

    def __init__(self, name):
        self.name = name
        self.instrs = []
        self.phis = []


class Function:
    def __init__(self, name, ret, params, pnames, vararg):
        self.name = name
        self.ret = ret
        self.params = params
        self.pnames = pnames
        self.vararg = vararg
        self.blocks = {}
        self.order = []
        self.defined = False
        self.personality = False

    @property
    def ftype(self):
        return Type('func', ret=self.ret, params=self.params, vararg=self.vararg)


class Global:
    def __init__(self, name, ty, init, const, external, align=None):
        self.name = name
        self.ty = ty
        self.init = init
        self.const = const
        self.external = external
        self.align = align


class Module:
    def __init__(self):
        self.types = {}
        self.globals = {}
        self.aliases = {}
        self.funcs = {}
        self.ctors = []


# --------------------------------------------------------------------------
# tokenizer
# --------------------------------------------------------------------------
_TOK = re.compile(r'''
    \s+
  | (?P<str>c"(?:[^"\\]|\\[0-9A-Fa-f]{2}|\\\\)*")
  | (?P<lid>%"(?:[^"\\]|\\.)*"|%[-a-zA-Z$._0-9]+)
  | (?P<gid>@"(?:[^"\\]|\\.)*"|@[-a-zA-Z$._0-9]+)
  | (?P<meta>![-a-zA-Z$._0-9]*|!"[^"]*")
  | (?P<attr>\#[0-9]+)
  | (?P<comdat>\$"(?:[^"\\]|\\.)*"|\$[-a-zA-Z$._0-9]+)
  | (?P<hex>0x[KLMHR]?[0-9A-Fa-f]+)
  | (?P<num>-?[0-9]+\.[0-9]*(?:[eE][-+]?[0-9]+)?|-?[0-9]+)
  | (?P<dots>\.\.\.)
  | (?P<word>[a-zA-Z_][a-zA-Z_0-9.]*)
  | (?P<qstr>"(?:[^"\\]|\\.)*")
  | (?P<p>[=,(){}\[\]<>*:|])
''', re.X)


def tokenize(line):
    out = []
    pos = 0
    n = len(line)
    m = _TOK.match
    while pos < n:
        mo = m(line, pos)
        if mo is None:
            if line[pos] == ';':
                break
            raise UnsupportedIR('cannot tokenize %r at %d' % (line, pos))
        pos = mo.end()
        g = mo.lastgroup
        if g is None:
            continue
        out.append((g, mo.group(g)))
    return out


def _unq(name):
    # %"foo bar" -> foo bar ; %foo -> foo
    s = name[1:]
    if s.startswith('"'):
        s = s[1:-1]
        s = re.sub(r'\\([0-9A-Fa-f]{2})', lambda m: chr(int(m.group(1), 16)), s)
    return s


_PARAM_ATTRS = set('''noundef nonnull noalias nocapture readonly writeonly readnone returned signext zeroext
immarg inreg nest nofree swiftself swifterror swiftasync noreturn inalloca'''.split())
_PARAM_ATTRS_ARG = set('align dereferenceable dereferenceable_or_null'.split())
_PARAM_ATTRS_TY = set('sret byval byref preallocated elementtype inalloca'.split())
_LINKAGE = set('''private internal available_externally linkonce weak common appending extern_weak linkonce_odr
weak_odr external dso_local dso_preemptable default hidden protected unnamed_addr local_unnamed_addr
thread_local externally_initialized dllimport dllexport'''.split())
_FMF = set('nnan ninf nsz arcp contract afn reassoc fast'.split())
_CC = set('ccc fastcc coldcc tailcc swiftcc'.split())


class P:
    """recursive descent over a token list"""

    def __init__(self, toks, mod, line=''):
        self.t = toks
        self.i = 0
        self.mod = mod
        self.line = line

    def peek(self, k=0):
        j = self.i + k
        return self.t[j] if j < len(self.t) else (None, None)

    def next(self):
        tk = self.t[self.i]
        self.i += 1
        return tk

    def accept(self, val):
        if self.i < len(self.t) and self.t[self.i][1] == val:
            self.i += 1
            return True
        return False

    def expect(self, val):
        if not self.accept(val):
            raise UnsupportedIR('expected %r at token %d in %r' % (val, self.i, self.line))

    def done(self):
        return self.i >= len(self.t)

    # ---- types
    def type(self, func_ok=False):
        g, v = self.next()
        if g == 'word':
            if v == 'void':
                t = VOID
            elif v[0] == 'i' and v[1:].isdigit():
                t = IntT(int(v[1:]))
            elif v == 'double':
                t = DOUBLE
            elif v == 'float':
                t = FLOAT
            elif v == 'x86_fp80':
                t = FP80
            elif v == 'label':
                t = LABEL
            elif v == 'metadata':
                t = METADATA
            elif v == 'token':
                t = TOKEN
            elif v == 'opaque':
                t = Type('opaque')
            elif v == 'ptr':
                raise UnsupportedIR('opaque pointers')
            else:
                raise UnsupportedIR('type word %r in %r' % (v, self.line))
        elif g == 'lid':
            nm = _unq(v)
            t = self.mod.types.get(nm)
            if t is None:
                t = self.mod.types[nm] = Type('struct', name=nm)
        elif v == '{':
            fields = []
            if not self.accept('}'):
                while True:
                    fields.append(self.type())
                    if self.accept('}'):
                        break
                    self.expect(',')
            t = Type('struct', fields=fields)
        elif v == '<':
            if self.peek()[1] == '{':
                self.next()
                fields = []
                if not self.accept('}'):
                    while True:
                        fields.append(self.type())
                        if self.accept('}'):
                            break
                        self.expect(',')
                self.expect('>')
                t = Type('struct', fields=fields, packed=True)
            else:
                n = int(self.next()[1])
                self.expect_word('x')
                e = self.type()
                self.expect('>')
                t = Type('vector', n=n, elem=e)
        elif v == '[':
            n = int(self.next()[1])
            self.expect_word('x')
            e = self.type()
            self.expect(']')
            t = Type('array', n=n, elem=e)
        else:
            raise UnsupportedIR('type token %r in %r' % (v, self.line))
        # suffixes
        while True:
            pv = self.peek()[1]
            if pv == '*':
                self.next()
                t = PtrT(t)
            elif pv == '(' and (func_ok or self._looks_like_functype()):
                self.next()
                params = []
                vararg = False
                if not self.accept(')'):
                    while True:
                        if self.peek()[0] == 'dots':
                            self.next()
                            vararg = True
                        else:
                            params.append(self.type())
                            self.skip_param_attrs()
                        if self.accept(')'):
                            break
                        self.expect(',')
                t = Type('func', ret=t, params=params, vararg=vararg)
            elif pv == 'addrspace':
                raise UnsupportedIR('addrspace')
            else:
                break
        return t

    def _looks_like_functype(self):
        # after a type, '(' begins a function type iff the matching ')' is followed by '*'
        depth = 0
        j = self.i
        while j < len(self.t):
            v = self.t[j][1]
            if v == '(':
                depth += 1
            elif v == ')':
                depth -= 1
                if depth == 0:
                    return j + 1 < len(self.t) and self.t[j + 1][1] == '*'
            j += 1
        return False

    def expect_word(self, w):
        g, v = self.next()
        if v != w:
            raise UnsupportedIR('expected %s in %r' % (w, self.line))

    def skip_param_attrs(self):
        while True:
            g, v = self.peek()
            if g != 'word':
                break
            if v in _PARAM_ATTRS:
                self.next()
                if v == 'inalloca' and self.peek()[1] == '(':
                    self.next(); self.type(); self.expect(')')
            elif v in _PARAM_ATTRS_ARG:
                self.next()
                if self.accept('('):
                    self.next()
                    self.expect(')')
                else:
                    self.next()
            elif v in _PARAM_ATTRS_TY:
                self.next()
                if self.accept('('):
                    self.type()
                    self.expect(')')
            else:
                break

    # ---- values
    def value(self, ty):
        g, v = self.next()
        if g == 'lid':
            return Val('local', _unq(v), ty)
        if g == 'gid':
            return Val('global', _unq(v), ty)
        if g == 'num':
            if ty.k in ('double', 'float'):
                return Val('fp', Fraction(float(v)), ty)   # the decimal text denotes the nearest double
            return Val('int', int(v), ty)
        if g == 'hex':
            if ty.k == 'double' or ty.k == 'float':
                h = v[2:]
                if h[0] in 'KLMHR':
                    raise UnsupportedIR('fp80 constant')
                bits = int(h, 16)
                d = struct.unpack('<d', struct.pack('<Q', bits))[0]
                if d != d or d in (float('inf'), float('-inf')):
                    return Val('fp', d, ty)
                return Val('fp', Fraction(d), ty)
            if ty.k == 'x86_fp80':
                return Val('undef', None, ty)
            return Val('int', int(v, 16), ty)
        if g == 'str':
            return Val('str', _cstr(v), ty)
        if g == 'meta':
            # metadata operand: swallow
            if self.peek()[1] == '(':
                self._skip_parens()
            return Val('meta', v, ty)
        if g == 'word':
            if v == 'null':
                return Val('null', None, ty)
            if v in ('undef', 'poison'):
                return Val('undef', None, ty)
            if v == 'zeroinitializer':
                return Val('zero', None, ty)
            if v == 'true':
                return Val('int', 1, ty)
            if v == 'false':
                return Val('int', 0, ty)
            if v == 'none':
                return Val('undef', None, ty)
            if v in ('getelementptr',):
                inb = self.accept('inbounds')
                self.expect('(')
                sty = self.type()
                self.expect(',')
                args = []
                while True:
                    self.accept('inrange')
                    t = self.type()
                    args.append(self.value(t))
                    if self.accept(')'):
                        break
                    self.expect(',')
                return Val('cexpr', None, ty, args=args, op='getelementptr', extra=sty)
            if v in ('bitcast', 'ptrtoint', 'inttoptr', 'trunc', 'zext', 'sext', 'addrspacecast'):
                self.expect('(')
                t = self.type()
                a = self.value(t)
                self.expect_word('to')
                t2 = self.type()
                self.expect(')')
                return Val('cexpr', None, t2, args=[a], op=v)
            if v in ('add', 'sub', 'mul', 'and', 'or', 'xor', 'shl', 'lshr', 'ashr'):
                while self.peek()[1] in ('nuw', 'nsw', 'exact'):
                    self.next()
                self.expect('(')
                t = self.type()
                a = self.value(t)
                self.expect(',')
                t2 = self.type()
                b = self.value(t2)
                self.expect(')')
                return Val('cexpr', None, t, args=[a, b], op=v)
            if v == 'icmp':
                pred = self.next()[1]
                self.expect('(')
                t = self.type()
                a = self.value(t)
                self.expect(',')
                t2 = self.type()
                b = self.value(t2)
                self.expect(')')
                return Val('cexpr', None, I1, args=[a, b], op='icmp', extra=pred)
            if v == 'select':
                self.expect('(')
                args = []
                while True:
                    t = self.type()
                    args.append(self.value(t))
                    if self.accept(')'):
                        break
                    self.expect(',')
                return Val('cexpr', None, args[1].ty, args=args, op='select')
            if v == 'blockaddress' or v == 'asm' or v == 'dso_local_equivalent':
                raise UnsupportedIR('constant %s' % v)
            raise UnsupportedIR('value word %r in %r' % (v, self.line))
        if v == '{' or v == '[' or v == '<':
            close = {'{': '}', '[': ']', '<': '>'}[v]
            packed = False
            if v == '<' and self.peek()[1] == '{':
                self.next()
                packed = True
                close = '}'
            elems = []
            if not self.accept(close):
                while True:
                    t = self.type()
                    elems.append(self.value(t))
                    if self.accept(close):
                        break
                    self.expect(',')
            if packed:
                self.expect('>')
            return Val('agg', elems, ty)
        raise UnsupportedIR('value token %r in %r' % (v, self.line))

    def _skip_parens(self):
        depth = 0
        while True:
            v = self.next()[1]
            if v == '(':
                depth += 1
            elif v == ')':
                depth -= 1
                if depth == 0:
                    return

    def tvalue(self):
        t = self.type()
        self.skip_param_attrs()
        return self.value(t)


def _cstr(tok):
    s = tok[2:-1]
    out = bytearray()
    i = 0
    while i < len(s):
        c = s[i]
        if c == '\\':
            if s[i + 1] == '\\':
                out.append(92)
                i += 2
            else:
                out.append(int(s[i + 1:i + 3], 16))
                i += 3
        else:
            out.append(ord(c))
            i += 1
    return bytes(out)


# --------------------------------------------------------------------------
# module parser
# --------------------------------------------------------------------------
_BINOPS = set('add sub mul udiv sdiv urem srem shl lshr ashr and or xor fadd fsub fmul fdiv frem'.split())
_CASTS = set('trunc zext sext fptrunc fpext fptoui fptosi uitofp sitofp ptrtoint inttoptr bitcast addrspacecast'.split())


def _strip_meta(toks):
    """drop trailing ', !tbaa !N' metadata attachments"""
    for j in range(len(toks) - 1):
        if toks[j][1] == ',' and toks[j + 1][0] == 'meta':
            return toks[:j]
    return toks


def parse_module(text):
    mod = Module()
    lines = text.split('\n')
    n = len(lines)
    i = 0
    # pass 1: named types (so that forward references resolve to the same object)
    for ln in lines:
        if ln.startswith('%') and ' = type ' in ln:
            toks = tokenize(ln)
            nm = _unq(toks[0][1])
            if nm not in mod.types:
                mod.types[nm] = Type('struct', name=nm)
    while i < n:
        ln = lines[i]
        i += 1
        if not ln or ln[0] == ';':
            continue
        c0 = ln[0]
        if c0 == '%':
            toks = tokenize(ln)
            nm = _unq(toks[0][1])
            p = P(toks, mod, ln)
            p.i = 3  # name = type
            t = mod.types[nm]
            if p.peek()[1] == 'opaque':
                t.fields = None
            else:
                body = p.type()
                if body.k != 'struct':
                    raise UnsupportedIR('named non-struct type ' + ln)
                t.fields = body.fields
                t.packed = body.packed
            continue
        if c0 == '@':
            _parse_global(mod, ln)
            continue
        if ln.startswith('declare '):
            _parse_fhead(mod, ln, False)
            continue
        if ln.startswith('define '):
            f = _parse_fhead(mod, ln, True)
            # body
            cur = None
            first = True
            while True:
                ln = lines[i]
                i += 1
                if ln == '}':
                    break
                if not ln:
                    continue
                if ln[0] != ' ':
                    # label
                    m = re.match(r'^("(?:[^"\\]|\\.)*"|[-a-zA-Z$._0-9]+):', ln)
                    if not m:
                        raise UnsupportedIR('label? ' + ln)
                    lab = m.group(1)
                    if lab.startswith('"'):
                        lab = _unq('%' + lab)
                    cur = Block(lab)
                    f.blocks[lab] = cur
                    f.order.append(lab)
                    first = False
                    continue
                if ln.lstrip().startswith(';'):
                    continue
                if cur is None:
                    # implicit entry block: name = number of params (unnamed numbering)
                    lab = str(f._next_unnamed)
                    cur = Block(lab)
                    f.blocks[lab] = cur
                    f.order.append(lab)
                # multi-line instructions: invoke (to label..), landingpad clauses, switch [ ... ]
                s = ln.strip()
                if s.startswith('switch ') or (' = ' in s and False):
                    pass
                if s.startswith('switch '):
                    while not s.rstrip().endswith(']'):
                        s += ' ' + lines[i].strip()
                        i += 1
                else:
                    # continuation lines are indented deeper (10 spaces)
                    while i < n and lines[i].startswith('          ') and not lines[i].lstrip().startswith(';'):
                        s += ' ' + lines[i].strip()
                        i += 1
                try:
                    ins = _parse_instr(mod, s)
                except UnsupportedIR as e:
                    if ' asm ' in s and '"#' in s:
                        ins = Instr('nop', text=s)
                    else:
                        ins = Instr('unsupported', extra=str(e), text=s)
                        r = re.match(r'\s*(%"(?:[^"\\]|\\.)*"|%[-a-zA-Z$._0-9]+) = ', s)
                        if r:
                            ins.res = _unq(r.group(1))
                if ins.op == 'phi':
                    cur.phis.append(ins)
                cur.instrs.append(ins)
            continue
        # target, source_filename, attributes, metadata, comdat: ignore
    # global ctors
    g = mod.globals.get('llvm.global_ctors')
    if g is not None and g.init is not None and g.init.k == 'agg':
        ents = []
        for e in g.init.v:
            prio = e.v[0].v
            fn = e.v[1]
            if fn.k == 'global':
                ents.append((prio, fn.v))
        ents.sort(key=lambda x: x[0])
        mod.ctors = [x[1] for x in ents]
    return mod


def _parse_global(mod, ln):
    toks = tokenize(ln)
    toks = _strip_meta(toks)
    nm = _unq(toks[0][1])
    p = P(toks, mod, ln)
    p.i = 2
    external = False
    const = False
    while True:
        g, v = p.peek()
        if g == 'word' and v in _LINKAGE:
            if v in ('external', 'extern_weak'):
                external = True
            p.next()
            if v == 'thread_local' and p.peek()[1] == '(':
                p._skip_parens()
        else:
            break
    g, v = p.peek()
    if v == 'alias' or v == 'ifunc':
        p.next()
        p.type(func_ok=True)
        p.expect(',')
        t = p.type()
        tgt = p.value(t)
        while tgt.k == 'cexpr':
            tgt = tgt.args[0]
        mod.aliases[nm] = tgt.v
        return
    if v == 'global':
        p.next()
    elif v == 'constant':
        p.next()
        const = True
    else:
        raise UnsupportedIR('global? ' + ln)
    ty = p.type()
    init = None
    if not external:
        init = p.value(ty)
    align = None
    while not p.done():
        g, v = p.next()
        if v == 'align':
            align = int(p.next()[1])
    mod.globals[nm] = Global(nm, ty, init, const, external, align)


def _parse_fhead(mod, ln, defined):
    toks = tokenize(ln)
    p = P(toks, mod, ln)
    p.next()  # define/declare
    while True:
        g, v = p.peek()
        if g == 'word' and (v in _LINKAGE or v in _CC or v in _PARAM_ATTRS):
            p.next()
        elif g == 'word' and v in _PARAM_ATTRS_ARG:
            p.next()
            if p.accept('('):
                p.next()
                p.expect(')')
            else:
                p.next()
        else:
            break
    ret = p.type()
    g, v = p.next()
    if g != 'gid':
        raise UnsupportedIR('function name? ' + ln)
    nm = _unq(v)
    p.expect('(')
    params = []
    pnames = []
    vararg = False
    unnamed = 0
    if not p.accept(')'):
        while True:
            if p.peek()[0] == 'dots':
                p.next()
                vararg = True
            else:
                t = p.type()
                p.skip_param_attrs()
                params.append(t)
                if p.peek()[0] == 'lid':
                    pnames.append(_unq(p.next()[1]))
                else:
                    pnames.append(str(unnamed))
                if pnames[-1].isdigit():
                    unnamed = max(unnamed, int(pnames[-1]) + 1)
            if p.accept(')'):
                break
            p.expect(',')
    f = mod.funcs.get(nm)
    if f is None or defined:
        f = Function(nm, ret, params, pnames, vararg)
        mod.funcs[nm] = f
    f.defined = defined
    f._next_unnamed = unnamed
    return f


def _parse_instr(mod, s):
    toks = _strip_meta(tokenize(s))
    p = P(toks, mod, s)
    res = None
    if toks[0][0] == 'lid' and len(toks) > 1 and toks[1][1] == '=':
        res = _unq(toks[0][1])
        p.i = 2
    g, op = p.next()
    if op in ('tail', 'musttail', 'notail'):
        g, op = p.next()
    I = Instr
    if op in _BINOPS:
        while p.peek()[1] in ('nuw', 'nsw', 'exact') or p.peek()[1] in _FMF:
            p.next()
        flags = set(t[1] for t in toks[2:6])
        t = p.type()
        a = p.value(t)
        p.expect(',')
        b = p.value(t)
        return I(op, res, t, [a, b], extra=('nsw' in flags, 'nuw' in flags), text=s)
    if op == 'fneg':
        while p.peek()[1] in _FMF:
            p.next()
        t = p.type()
        a = p.value(t)
        return I(op, res, t, [a], text=s)
    if op in _CASTS:
        t = p.type()
        a = p.value(t)
        p.expect_word('to')
        t2 = p.type()
        return I(op, res, t2, [a], extra=t, text=s)
    if op == 'icmp' or op == 'fcmp':
        while p.peek()[1] in _FMF:
            p.next()
        pred = p.next()[1]
        t = p.type()
        a = p.value(t)
        p.expect(',')
        b = p.value(t)
        return I(op, res, t, [a, b], extra=pred, text=s)
    if op == 'load':
        p.accept('atomic')
        p.accept('volatile')
        t = p.type()
        p.expect(',')
        pt = p.type()
        a = p.value(pt)
        return I(op, res, t, [a], text=s)
    if op == 'store':
        p.accept('atomic')
        p.accept('volatile')
        t = p.type()
        v = p.value(t)
        p.expect(',')
        pt = p.type()
        a = p.value(pt)
        return I(op, None, t, [v, a], text=s)
    if op == 'getelementptr':
        p.accept('inbounds')
        sty = p.type()
        p.expect(',')
        ops = []
        while True:
            t = p.type()
            ops.append(p.value(t))
            if not p.accept(','):
                break
        return I(op, res, sty, ops, text=s)
    if op == 'alloca':
        p.accept('inalloca')
        t = p.type()
        cnt = None
        align = None
        while p.accept(','):
            if p.accept('align'):
                align = int(p.next()[1])
            else:
                ct = p.type()
                cnt = p.value(ct)
        return I(op, res, t, [cnt] if cnt is not None else [], extra=align, text=s)
    if op == 'phi':
        while p.peek()[1] in _FMF:
            p.next()
        t = p.type()
        inc = []
        while True:
            p.expect('[')
            v = p.value(t)
            p.expect(',')
            lab = _unq(p.next()[1])
            p.expect(']')
            inc.append((v, lab))
            if not p.accept(','):
                break
        return I(op, res, t, [x[0] for x in inc], extra=[x[1] for x in inc], text=s)
    if op == 'select':
        while p.peek()[1] in _FMF:
            p.next()
        ct = p.type()
        c = p.value(ct)
        p.expect(',')
        t = p.type()
        a = p.value(t)
        p.expect(',')
        t2 = p.type()
        b = p.value(t2)
        return I(op, res, t, [c, a, b], text=s)
    if op == 'br':
        if p.peek()[1] == 'label':
            p.next()
            return I(op, None, None, [], extra=[_unq(p.next()[1])], text=s)
        t = p.type()
        c = p.value(t)
        p.expect(',')
        p.expect_word('label')
        l1 = _unq(p.next()[1])
        p.expect(',')
        p.expect_word('label')
        l2 = _unq(p.next()[1])
        return I(op, None, None, [c], extra=[l1, l2], text=s)
    if op == 'switch':
        t = p.type()
        c = p.value(t)
        p.expect(',')
        p.expect_word('label')
        dflt = _unq(p.next()[1])
        p.expect('[')
        cases = []
        while not p.accept(']'):
            ct = p.type()
            cv = p.value(ct)
            p.expect(',')
            p.expect_word('label')
            cases.append((cv.v, _unq(p.next()[1])))
        return I(op, None, t, [c], extra=(dflt, cases), text=s)
    if op == 'ret':
        t = p.type()
        if t.k == 'void':
            return I(op, None, t, [], text=s)
        return I(op, None, t, [p.value(t)], text=s)
    if op == 'unreachable':
        return I(op, text=s)
    if op == 'resume':
        t = p.type()
        return I(op, None, t, [p.value(t)], text=s)
    if op in ('call', 'invoke'):
        while True:
            g, v = p.peek()
            if g == 'word' and (v in _FMF or v in _CC or v in _PARAM_ATTRS):
                p.next()
            elif g == 'word' and v in _PARAM_ATTRS_ARG:
                p.next()
                if p.accept('('):
                    p.next()
                    p.expect(')')
                else:
                    p.next()
            else:
                break
        rt = p.type()
        # rt may be a full function type pointer-less: "void (i8*, ...)" handled in type() only when followed by '*'.
        fty = None
        if p.peek()[1] == '(' and p.peek()[0] == 'p':
            # vararg style: ret (params...) @callee(args)
            # parse the parenthesised param type list
            p.next()
            while not p.accept(')'):
                if p.peek()[0] == 'dots':
                    p.next()
                else:
                    p.type()
                p.accept(',')
            if p.accept('*'):
                # it was actually a function pointer type value: rare
                raise UnsupportedIR('call through fn-ptr-typed return ' + s)
        g, v = p.peek()
        if v in ('asm',):
            raise UnsupportedIR('inline asm: ' + s)
        callee = p.value(PtrT(Type('func', ret=rt, params=[])))
        p.expect('(')
        args = []
        if not p.accept(')'):
            while True:
                t = p.type()
                p.skip_param_attrs()
                args.append(p.value(t))
                if p.accept(')'):
                    break
                p.expect(',')
        extra = None
        if op == 'invoke':
            # skip fn attrs
            while p.peek()[1] != 'to':
                p.next()
            p.next()
            p.expect_word('label')
            l1 = _unq(p.next()[1])
            p.expect_word('unwind')
            p.expect_word('label')
            l2 = _unq(p.next()[1])
            extra = (l1, l2)
        return I(op, res, rt, [callee] + args, extra=extra, text=s)
    if op == 'landingpad':
        t = p.type()
        cleanup = False
        clauses = []
        while not p.done():
            g, v = p.next()
            if v == 'cleanup':
                cleanup = True
            elif v == 'catch':
                ct = p.type()
                clauses.append(('catch', p.value(ct)))
            elif v == 'filter':
                ct = p.type()
                clauses.append(('filter', p.value(ct)))
            else:
                raise UnsupportedIR('landingpad clause ' + s)
        return I(op, res, t, [], extra=(cleanup, clauses), text=s)
    if op == 'extractvalue':
        t = p.type()
        a = p.value(t)
        idx = []
        while p.accept(','):
            idx.append(int(p.next()[1]))
        return I(op, res, t, [a], extra=idx, text=s)
    if op == 'insertvalue':
        t = p.type()
        a = p.value(t)
        p.expect(',')
        t2 = p.type()
        b = p.value(t2)
        idx = []
        while p.accept(','):
            idx.append(int(p.next()[1]))
        return I(op, res, t, [a, b], extra=idx, text=s)
    if op == 'atomicrmw':
        p.accept('volatile')
        bop = p.next()[1]
        pt = p.type()
        a = p.value(pt)
        p.expect(',')
        t = p.type()
        v = p.value(t)
        return I(op, res, t, [a, v], extra=bop, text=s)
    if op == 'cmpxchg':
        p.accept('weak')
        p.accept('volatile')
        pt = p.type()
        a = p.value(pt)
        p.expect(',')
        t = p.type()
        c = p.value(t)
        p.expect(',')
        t2 = p.type()
        nv = p.value(t2)
        return I(op, res, t, [a, c, nv], text=s)
    if op == 'fence':
        return I(op, text=s)
    if op == 'freeze':
        t = p.type()
        return I(op, res, t, [p.value(t)], text=s)
    raise UnsupportedIR('instruction %r' % s)


def load_module(path):
    with open(path) as f:
        return parse_module(f.read())


if __name__ == '__main__':
    import sys, time
    t0 = time.time()
    m = load_module(sys.argv[1])
    print('types', len(m.types), 'globals', len(m.globals), 'funcs', len(m.funcs),
          'defined', sum(1 for f in m.funcs.values() if f.defined), 'ctors', m.ctors, '%.2fs' % (time.time() - t0))
    ops = {}
    for f in m.funcs.values():
        for b in f.blocks.values():
            for ins in b.instrs:
                ops[ins.op] = ops.get(ins.op, 0) + 1
    print(sorted(ops.items(), key=lambda x: -x[1]))
