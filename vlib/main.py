import sys, os, argparse, json
from . import runner, props


def main():
    ap = argparse.ArgumentParser()
    ap.add_argument('prop')
    ap.add_argument('--tier', default=os.environ.get('VERIF_TIER', 'quick'))
    ap.add_argument('--unit')
    ap.add_argument('--keep', action='store_true')
    ap.add_argument('--replay')
    ap.add_argument('--no-evidence', action='store_true')
    a = ap.parse_args()
    seed = int(os.environ.get('VERIF_SEED', '0') or 0)
    spec = props.PROPS[a.prop]
    if a.replay:
        sys.exit(runner.replay_file(a.prop, spec, a.replay))
    rc, ev = runner.run_property(a.prop, spec, a.tier, seed=seed, only_unit=a.unit, keep=a.keep)
    if not a.no_evidence and not a.unit:
        runner.write_evidence(a.prop, ev)
    sys.exit(rc)


if __name__ == '__main__':
    main()
