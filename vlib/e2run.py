"""developer entry: build one harness unit from the current /repo tree and run engine E2 on it"""
import sys, os, time, json, argparse, shutil
sys.path.insert(0, os.path.dirname(os.path.dirname(os.path.abspath(__file__))))
from vlib import build, irfront, irs


def build_unit(scratch, harness, defs=(), extra_models=('mpi_single.cpp',), repo_lls=None, complex_build=False):
    if repo_lls is None:
        repo_lls = build.compile_repo(scratch, complex_build)
    hsrc = os.path.join(build.VERIF, 'harness', harness + '.cpp')
    tag = harness + ''.join('_' + d.replace('=', '') for d in defs)
    hll = os.path.join(scratch, tag + '.ll')
    build.compile_ll(hsrc, hll, scratch, extra=['-D' + d for d in defs], access=True)
    mlls = []
    for m in ('libmodel.cpp',) + tuple(extra_models):
        o = os.path.join(scratch, m.replace('.cpp', '.ll'))
        if not os.path.exists(o):
            build.compile_ll(os.path.join(build.VERIF, 'model', m), o, scratch)
        mlls.append(o)
    import re as _re
    stubs = sorted(set(_re.findall(r'^define [^@]*@(stub_[A-Za-z0-9_]+)\(', open(hll).read(), _re.M)))
    unit = build.link_unit(scratch, tag, repo_lls + [hll] + mlls, ['h_main'] + stubs)
    return unit


def main():
    ap = argparse.ArgumentParser()
    ap.add_argument('harness')
    ap.add_argument('-D', action='append', default=[])
    ap.add_argument('--fix', action='append', default=[])
    ap.add_argument('--keep', action='store_true')
    ap.add_argument('--timeout', type=int, default=20000)
    ap.add_argument('--max-paths', type=int, default=200000)
    ap.add_argument('--override', action='append', default=[])
    ap.add_argument('--resolve-selects', action='store_true')
    ap.add_argument('--no-mpi-single', action='store_true')
    ap.add_argument('--complex', action='store_true', help='complex-element build of the library')
    a = ap.parse_args()
    scratch = build.make_scratch('dev')
    try:
        t0 = time.time()
        unit = build_unit(scratch, a.harness, a.D, extra_models=() if a.no_mpi_single else ('mpi_single.cpp',), complex_build=a.complex)
        t1 = time.time()
        mod = irfront.load_module(unit)
        t2 = time.time()
        fixed = dict(f.split('=') for f in a.fix)
        E = irs.Engine(mod, dict(query_timeout_ms=a.timeout, fixed=fixed, max_paths=a.max_paths, max_loop=20000,
                                 overrides=dict(o.split('=') for o in a.override), resolve_selects=a.resolve_selects))
        res = E.run('h_main')
        t3 = time.time()
        print('build %.1fs parse %.1fs run %.1fs  | unit %s' % (t1 - t0, t2 - t1, t3 - t2, unit))
        print('paths', res.paths, 'ended', res.ended, 'steps', res.steps, 'queries', res.queries,
              'solver %.1fs' % res.solver_time)
        print('checks', json.dumps(res.checks, indent=1))
        print('reached', res.reached)
        for v in res.violations[:5]:
            print('VIOLATION', json.dumps(v)[:1500])
        for v in res.issues[:8]:
            print('ISSUE', json.dumps(v)[:1200])
        print('n_violations', len(res.violations), 'n_issues', len(res.issues))
        for e in res.errors[:10]:
            print('ERROR', e[:600])
    finally:
        if a.keep:
            print('scratch kept:', scratch)
        else:
            shutil.rmtree(scratch, ignore_errors=True)


if __name__ == '__main__':
    main()
