"""Engine E2: path-forking symbolic executor for LLVM IR -> z3.

* integers: Python int (canonical unsigned) or z3 BitVec; i1 symbolic = z3 Bool
* double : exact Fraction when concrete, SR(num,den) (polynomial pair over the reals) when symbolic
* pointer: plain 64-bit integer  (object id << 32) + offset ; object ids start at 1
* memory : objects with byte-addressed typed cells, bounds / liveness / initialisation checked
"""
import sys, time, struct, re, json, os
from fractions import Fraction
import z3
from . import irfront as F
from .irfront import sizeof, alignof, field_offset, UnsupportedIR

OBJ_SHIFT = 32
OFF_MASK = (1 << OBJ_SHIFT) - 1
M64 = (1 << 64) - 1


class EncodingLimit(Exception):
    pass


class PathEnd(Exception):
    """terminate the current path (kind, message)"""

    def __init__(self, kind, msg=''):
        self.kind = kind
        self.msg = msg


class Undef:
    def __repr__(self):
        return 'undef'


UNDEF = Undef()


# --------------------------------------------------------------------------
# symbolic reals: num/den with polynomial z3 terms
# --------------------------------------------------------------------------
def _rv(x):
    """python number -> z3 real term"""
    if isinstance(x, (int, Fraction)):
        return z3.RealVal(str(Fraction(x)))
    return x


class SR:
    __slots__ = ('n', 'd')

    def __init__(self, n, d=1):
        self.n = n
        self.d = d  # python 1, Fraction, or z3 term (non-zero on the path)

    def __repr__(self):
        return 'SR(%s / %s)' % (self.n, self.d)

    def term(self):
        if type(self.d) is int and self.d == 1:
            return _rv(self.n)
        return _rv(self.n) / _rv(self.d)


def is_conc_real(v):
    return type(v) is Fraction or type(v) is int


POS = set()      # ids of z3 terms (denominators) proved positive under the path on which they were created


def is_pos(d):
    if type(d) is Fraction or type(d) is int:
        return d > 0
    return d.get_id() in POS


def mark_pos(d):
    if not (type(d) is Fraction or type(d) is int):
        POS.add(d.get_id())
        _KEEP.append(d)


_KEEP = []       # keeps marked terms alive so that ids are not reused


def _mul(a, b):
    if is_conc_real(a):
        if a == 1:
            return b
        if a == 0:
            return 0
        if is_conc_real(b):
            return a * b
        return _rv(a) * b
    if is_conc_real(b):
        if b == 1:
            return a
        if b == 0:
            return 0
        return a * _rv(b)
    return a * b


def _add(a, b):
    if is_conc_real(a):
        if is_conc_real(b):
            return a + b
        if a == 0:
            return b
        return _rv(a) + b
    if is_conc_real(b):
        if b == 0:
            return a
        return a + _rv(b)
    r = z3.simplify(a + b)
    if z3.is_rational_value(r):
        return r.as_fraction()
    return r


def _neg(a):
    if is_conc_real(a):
        return -a
    return -a


def _same(a, b):
    if is_conc_real(a) or is_conc_real(b):
        return is_conc_real(a) and is_conc_real(b) and a == b
    return a.eq(b)


def rparts(v):
    """real value -> (num, den)"""
    if type(v) is SR:
        return v.n, v.d
    if type(v) is Fraction or type(v) is int:
        return v, 1
    if type(v) is float:
        raise EncodingLimit('non-finite float in real arithmetic')
    if v is UNDEF:
        raise PathEnd('uninit', 'arithmetic on an uninitialised/undef double')
    if z3.is_bv(v):
        raise EncodingLimit('bit-level integer reinterpreted as double')
    raise EncodingLimit('not a real: %r' % (v,))


def mk_real(n, d):
    if is_conc_real(n) and is_conc_real(d):
        return Fraction(n) / Fraction(d)
    if is_conc_real(d):
        if d == 1:
            return SR(n, 1)
        return SR(_mul(n, Fraction(1) / Fraction(d)), 1)
    if is_conc_real(n) and n == 0:
        return Fraction(0)
    return SR(n, d)


def radd(a, b):
    an, ad = rparts(a)
    bn, bd = rparts(b)
    if _same(ad, bd):
        return mk_real(_add(an, bn), ad)
    d = _mul(ad, bd)
    if is_pos(ad) and is_pos(bd):
        mark_pos(d)
    return mk_real(_add(_mul(an, bd), _mul(bn, ad)), d)


def rneg(a):
    an, ad = rparts(a)
    return mk_real(_neg(an), ad)


def rsub(a, b):
    return radd(a, rneg(b))


def rmul(a, b):
    an, ad = rparts(a)
    bn, bd = rparts(b)
    d = _mul(ad, bd)
    if is_pos(ad) and is_pos(bd):
        mark_pos(d)
    return mk_real(_mul(an, bn), d)


def rcmp(pred, a, b):
    """returns python bool or z3 Bool for a <pred> b, pred in lt le gt ge eq ne"""
    an, ad = rparts(a)
    bn, bd = rparts(b)
    if is_conc_real(an) and is_conc_real(ad) and is_conc_real(bn) and is_conc_real(bd):
        x = Fraction(an) / Fraction(ad)
        y = Fraction(bn) / Fraction(bd)
        return {'lt': x < y, 'le': x <= y, 'gt': x > y, 'ge': x >= y, 'eq': x == y, 'ne': x != y}[pred]
    if pred in ('eq', 'ne'):
        l = _rv(_mul(an, bd))
        r = _rv(_mul(bn, ad))
        return (l == r) if pred == 'eq' else (l != r)
    # a/ad ? b/bd   <=>   an*ad*bd^2 ? bn*bd*ad^2   (denominators non-zero)
    if is_pos(ad) and is_pos(bd):
        l = _rv(_mul(an, bd))
        r = _rv(_mul(bn, ad))
    elif is_conc_real(ad) and is_conc_real(bd):
        # scale by positive constants only
        s = 1 if (ad > 0) == (bd > 0) else -1
        l = _rv(_mul(_mul(an, bd), s))
        r = _rv(_mul(_mul(bn, ad), s))
    else:
        l = _rv(_mul(_mul(an, ad), _mul(bd, bd)))
        r = _rv(_mul(_mul(bn, bd), _mul(ad, ad)))
    return {'lt': l < r, 'le': l <= r, 'gt': l > r, 'ge': l >= r}[pred]


# --------------------------------------------------------------------------
# memory
# --------------------------------------------------------------------------
class Obj:
    __slots__ = ('size', 'cells', 'live', 'kind', 'fill', 'name', 'ro')

    def __init__(self, size, kind, fill=None, name=''):
        self.size = size
        self.cells = {}     # off -> (nbytes, value)
        self.live = True
        self.kind = kind    # 'stack','heap','global','func'
        self.fill = fill    # None = uninitialised, 0 = zero-filled
        self.name = name
        self.ro = False

    def clone(self):
        o = Obj.__new__(Obj)
        o.size = self.size
        o.cells = dict(self.cells)
        o.live = self.live
        o.kind = self.kind
        o.fill = self.fill
        o.name = self.name
        o.ro = self.ro
        return o


class Frame:
    __slots__ = ('fn', 'regs', 'block', 'idx', 'prev', 'allocas', 'call', 'vargs')

    def __init__(self, fn):
        self.fn = fn
        self.regs = {}
        self.block = None
        self.idx = 0
        self.prev = None
        self.allocas = []
        self.call = None   # the call/invoke instruction in the CALLER that created this frame
        self.vargs = None

    def clone(self):
        f = Frame.__new__(Frame)
        f.fn = self.fn
        f.regs = dict(self.regs)
        f.block = self.block
        f.idx = self.idx
        f.prev = self.prev
        f.allocas = list(self.allocas)
        f.call = self.call
        f.vargs = self.vargs
        return f


class State:
    def __init__(self):
        self.frames = []
        self.mem = {}
        self.owned = set()
        self.next_obj = 1
        self.path = []        # z3 Bool constraints
        self.model = None     # a model of path (or None)
        self.exc = None       # in-flight exception (obj ptr, typeinfo ptr)
        self.caught = []      # stack of caught exceptions
        self.steps = 0
        self.loops = {}
        self.inputs = {}      # name -> z3 var / value
        self.trace = []       # records
        self.unsure = False   # a feasibility query came back unknown on this path
        self.assumed = []
        self.depth = 0
        self.threads = {}      # tid -> suspended frame stack (cooperative threads: __v_thread_create / __v_switch)
        self.cur_tid = 0
        self.finished = set()
        self.next_tid = 1

    def clone(self):
        s = State.__new__(State)
        s.frames = [f.clone() for f in self.frames]
        s.mem = dict(self.mem)
        self.owned = set()
        s.owned = set()
        s.next_obj = self.next_obj
        s.path = list(self.path)
        s.model = self.model
        s.exc = self.exc
        s.caught = list(self.caught)
        s.steps = self.steps
        s.loops = dict(self.loops)
        s.inputs = dict(self.inputs)
        s.trace = list(self.trace)
        s.unsure = self.unsure
        s.assumed = list(self.assumed)
        s.depth = self.depth
        s.threads = dict((t, [f.clone() for f in fs]) for t, fs in self.threads.items())
        s.cur_tid = self.cur_tid
        s.finished = set(self.finished)
        s.next_tid = self.next_tid
        s.exp_args = getattr(self, 'exp_args', ())
        s.exp_zero = getattr(self, 'exp_zero', 0)
        s.exp_conc = getattr(self, 'exp_conc', ())
        s.exp_scope = getattr(self, 'exp_scope', None)
        return s

    # --- memory
    def alloc(self, size, kind, fill=None, name=''):
        oid = self.next_obj
        self.next_obj += 1
        self.mem[oid] = Obj(size, kind, fill, name)
        self.owned.add(oid)
        return oid << OBJ_SHIFT

    def wobj(self, oid):
        o = self.mem[oid]
        if oid not in self.owned:
            o = o.clone()
            self.mem[oid] = o
            self.owned.add(oid)
        return o


# --------------------------------------------------------------------------
class Result:
    def __init__(self):
        self.paths = 0
        self.ended = {}          # kind -> count
        self.checks = {}         # label -> dict(discharged, violated, inconclusive, concrete)
        self.reached = {}        # label -> count
        self.violations = []     # dicts
        self.issues = []         # monitor hits (memory safety etc.)
        self.queries = 0
        self.solver_time = 0.0
        self.steps = 0
        self.records = []        # per path list of records
        self.lemmas = set()
        self.errors = []         # engine problems (encoding limit, unsupported)
        self.funcs = set()

    def chk(self, label):
        return self.checks.setdefault(label, dict(discharged=0, violated=0, inconclusive=0, concrete=0))


class Engine:
    def __init__(self, mod, opts=None):
        self.mod = mod
        self.opts = opts or {}
        self.qtimeout = int(self.opts.get('query_timeout_ms', 20000))
        self.max_steps = int(self.opts.get('max_steps', 5_000_000))
        self.max_loop = int(self.opts.get('max_loop', 2000))
        self.max_paths = int(self.opts.get('max_paths', 200000))
        self.fixed = dict(self.opts.get('fixed', {}))   # name -> concrete value (replay/concrete mode)
        self.res = Result()
        self.gaddr = {}
        self.faddr = {}
        self.fbyaddr = {}
        self.builtins = {}
        self.typeid = {}
        self.expfn = z3.Function('E', z3.RealSort(), z3.RealSort())
        self.exp_apps = {}
        self.uid = 0
        self.overrides = {}
        for key, target in dict(self.opts.get('overrides', {})).items():
            hits = [f for f in mod.funcs if key == f] or [f for f in mod.funcs if re.search(key, f)]
            if not hits:
                raise UnsupportedIR('override %r matches no function of the unit' % key)
            for h in hits:
                self.overrides[h] = target
        self.trace_calls = self.opts.get('trace_calls', False)
        self.stop_on_violation = self.opts.get('stop_on_violation', False)
        self.known_excl = self.opts.get('exclude', [])
        self.resolve_selects = bool(self.opts.get('resolve_selects', False))
        import collections
        self.tail = collections.deque(maxlen=int(self.opts['tail'])) if self.opts.get('tail') else None
        from . import irs_builtins
        irs_builtins.install(self)

    # ---------------------------------------------------------------- setup
    def fresh(self, prefix):
        self.uid += 1
        return '%s!%d' % (prefix, self.uid)

    def init_state(self):
        st = State()
        mod = self.mod
        # functions get addresses
        for name, f in mod.funcs.items():
            a = st.alloc(1, 'func', 0, name)
            self.faddr[name] = a
            self.fbyaddr[a] = name
        for name, tgt in mod.aliases.items():
            if tgt in self.faddr:
                self.faddr[name] = self.faddr[tgt]
        # globals: allocate first, then initialise (initialisers may refer to each other)
        for name, g in mod.globals.items():
            try:
                sz = sizeof(g.ty)
            except UnsupportedIR:
                sz = 64
            a = st.alloc(max(sz, 1), 'global', 0, name)
            self.gaddr[name] = a
        for name, tgt in mod.aliases.items():
            if tgt in self.gaddr:
                self.gaddr[name] = self.gaddr[tgt]
        for name, g in mod.globals.items():
            if g.init is not None and name not in ('llvm.global_ctors', 'llvm.compiler.used', 'llvm.used'):
                self.store_const(st, self.gaddr[name], g.ty, g.init)
        self.model_iostream_globals(st)
        return st

    def model_iostream_globals(self, st):
        """std::cout / cerr / clog live in libstdc++.so.  std::endl is inlined by clang and reads the stream's
        virtual-base offset and its ctype facet (widen('\\n')) before calling put/flush (which are no-op stubs):
        give the external stream objects a minimal well-formed shape (vbase offset 0, facet with a filled widen table)."""
        names = [n for n in ('_ZSt4cout', '_ZSt4cerr', '_ZSt4clog') if n in self.gaddr]
        if not names:
            return
        ct = self.mod.types.get('class.std::ctype')
        try:
            ok_off, tab_off = field_offset(ct, 8), field_offset(ct, 9)
        except Exception:
            ok_off, tab_off = 56, 57
        facet = st.alloc(1024, 'global', 0, 'model ctype<char> facet')
        self.store(st, facet + ok_off, F.I8, 1)
        for c in range(256):
            self.store(st, facet + tab_off + c, F.I8, c)
        vt = st.alloc(64, 'global', 0, 'model ostream vtable')
        for n in names:
            a = self.gaddr[n]
            oid = a >> OBJ_SHIFT
            o = st.wobj(oid)
            if o.size < 512:
                o.size = 512
            self.store(st, a, F.I64, vt + 24)
            self.store(st, a + 240, F.I64, facet)

    def const(self, v):
        """evaluate a constant operand (cached)"""
        k = v.k
        if k == 'int':
            bits = v.ty.bits if v.ty.k == 'int' else 64
            return v.v & ((1 << bits) - 1)
        if k == 'fp':
            return v.v
        if k == 'null':
            return 0
        if k == 'global':
            a = self.gaddr.get(v.v)
            if a is None:
                a = self.faddr.get(v.v)
            if a is None:
                raise UnsupportedIR('unknown global @%s' % v.v)
            return a
        if k == 'undef':
            return self.zero_or_undef(v.ty, True)
        if k == 'zero':
            return self.zero_or_undef(v.ty, False)
        if k == 'agg':
            return tuple(self.const(e) for e in v.v)
        if k == 'str':
            return tuple(v.v)
        if k == 'cexpr':
            return self.cexpr(v)
        if k == 'meta':
            return None
        raise UnsupportedIR('const %r' % (v,))

    def zero_or_undef(self, ty, undef):
        k = ty.k
        if k in ('int', 'ptr'):
            return UNDEF if undef else 0
        if k in ('double', 'float'):
            return UNDEF if undef else Fraction(0)
        if k == 'struct':
            return tuple(self.zero_or_undef(f, undef) for f in ty.fields)
        if k == 'array':
            return tuple(self.zero_or_undef(ty.elem, undef) for _ in range(ty.n))
        return UNDEF

    def cexpr(self, v):
        op = v.op
        if op in ('bitcast', 'addrspacecast'):
            return self.const(v.args[0])
        if op == 'ptrtoint' or op == 'inttoptr':
            return self.const(v.args[0])
        if op == 'getelementptr':
            base = self.const(v.args[0])
            idx = [self.const(a) for a in v.args[1:]]
            ity = [a.ty for a in v.args[1:]]
            return self.gep(base, v.extra, idx, ity)
        if op in ('add', 'sub'):
            a = self.const(v.args[0])
            b = self.const(v.args[1])
            bits = v.ty.bits
            return (a + b if op == 'add' else a - b) & ((1 << bits) - 1)
        if op == 'icmp':
            a = self.const(v.args[0])
            b = self.const(v.args[1])
            if v.extra == 'eq':
                return int(a == b)
            if v.extra == 'ne':
                return int(a != b)
        if op == 'select':
            c = self.const(v.args[0])
            return self.const(v.args[1]) if c else self.const(v.args[2])
        if op in ('trunc', 'zext'):
            a = self.const(v.args[0])
            return a & ((1 << v.ty.bits) - 1)
        raise UnsupportedIR('constant expression %s' % op)

    def store_const(self, st, addr, ty, v):
        k = v.k
        if k == 'zero':
            return  # objects of globals are zero filled
        if k == 'undef':
            return
        if k == 'agg':
            if ty.k == 'struct':
                for i, e in enumerate(v.v):
                    self.store_const(st, addr + field_offset(ty, i), ty.fields[i], e)
            else:
                es = sizeof(ty.elem)
                for i, e in enumerate(v.v):
                    self.store_const(st, addr + i * es, ty.elem, e)
            return
        if k == 'str':
            o = st.wobj(addr >> OBJ_SHIFT)
            off = addr & OFF_MASK
            for i, b in enumerate(v.v):
                o.cells[off + i] = (1, b)
            return
        val = self.const(v)
        self.store(st, addr, ty, val, init=True)

    # ---------------------------------------------------------------- memory access
    def _obj(self, st, addr, n, what):
        if type(addr) is not int:
            raise EncodingLimit('symbolic address reached memory access')
        oid = addr >> OBJ_SHIFT
        off = addr & OFF_MASK
        o = st.mem.get(oid)
        if o is None:
            if addr == 0 or oid == 0:
                raise PathEnd('memory', 'null/invalid pointer %s (address %#x)' % (what, addr))
            raise PathEnd('memory', 'wild pointer %s (address %#x)' % (what, addr))
        if not o.live:
            raise PathEnd('memory', '%s of %d bytes in freed/dead object %s' % (what, n, o.name or o.kind))
        if off + n > o.size:
            raise PathEnd('memory', '%s of %d bytes at offset %d past the end of %s object of %d bytes%s' % (
                what, n, off, o.kind, o.size, (' (' + o.name + ')') if o.name else ''))
        return oid, off, o

    def store(self, st, addr, ty, val, init=False):
        k = ty.k
        if k == 'struct':
            for i, f in enumerate(ty.fields):
                self.store(st, addr + field_offset(ty, i), f, val[i], init)
            return
        if k == 'array':
            es = sizeof(ty.elem)
            for i in range(ty.n):
                self.store(st, addr + i * es, ty.elem, val[i], init)
            return
        n = sizeof(ty)
        oid, off, o = self._obj(st, addr, n, 'store')
        if o.kind == 'func':
            raise PathEnd('memory', 'store into function object')
        o = st.wobj(oid)
        if k == 'int' and ty.bits == 1 and z3.is_bool(val):
            val = z3.If(val, z3.BitVecVal(1, 8), z3.BitVecVal(0, 8))
        self._clear(o, off, n)
        o.cells[off] = (n, val)

    def _clear(self, o, off, n):
        """remove / split every cell overlapping [off, off+n)"""
        cells = o.cells
        c = cells.get(off)
        if c is not None and c[0] == n:
            return
        if not cells:
            return
        # look at candidate offsets around
        for o2 in range(max(0, off - 15), off + n):
            c = cells.get(o2)
            if c is None:
                continue
            n2 = c[0]
            if o2 + n2 <= off:
                continue
            if o2 >= off and o2 + n2 <= off + n:
                del cells[o2]
                continue
            # partial overlap: split into bytes
            self._split(o, o2)
            for b in range(max(o2, off), min(o2 + n2, off + n)):
                cells.pop(b, None)

    def _split(self, o, off):
        n, v = o.cells[off]
        bs = self._tobytes(v, n)
        del o.cells[off]
        for i in range(n):
            o.cells[off + i] = (1, bs[i])

    def _tobytes(self, v, n):
        if type(v) is int:
            return [(v >> (8 * i)) & 255 for i in range(n)]
        if type(v) is Fraction:
            if n == 8:
                b = struct.pack('<d', float(v))
            else:
                b = struct.pack('<f', float(v))
            return list(b)
        if v is UNDEF:
            return [UNDEF] * n
        if z3.is_bv(v):
            return [z3.simplify(z3.Extract(8 * i + 7, 8 * i, v)) for i in range(n)]
        raise EncodingLimit('byte-wise access to a symbolic real')

    def load(self, st, addr, ty):
        k = ty.k
        if k == 'struct':
            return tuple(self.load(st, addr + field_offset(ty, i), f) for i, f in enumerate(ty.fields))
        if k == 'array':
            es = sizeof(ty.elem)
            return tuple(self.load(st, addr + i * es, ty.elem) for i in range(ty.n))
        n = sizeof(ty)
        oid, off, o = self._obj(st, addr, n, 'load')
        c = o.cells.get(off)
        if c is not None and c[0] == n:
            v = c[1]
        else:
            v = self._assemble(o, off, n)
            if v is UNDEF and k == 'int' and o.kind != 'func':
                v = self._junk_load(st, oid, off, n)
        return self._as_type(v, ty)

    def _junk_load(self, st, oid, off, n):
        """integer load that touches uninitialised bytes: the bytes get arbitrary-but-fixed symbolic values
        ('junk'); a branch or an address that DEPENDS on junk is reported by the uninitialised-read monitor,
        bit operations that mask the junk away (std::vector<bool> words) are fine."""
        o = st.wobj(oid)
        cells = o.cells
        # which bytes are covered by cells?
        covered = set()
        for o2 in range(max(0, off - 15), off + n):
            c = cells.get(o2)
            if c is not None:
                covered.update(range(o2, o2 + c[0]))
        for b in range(off, off + n):
            if b not in covered:
                cells[b] = (1, z3.BitVec(self.fresh('junk'), 8))
            else:
                c = cells.get(b)
                if c is not None and c[1] is UNDEF:
                    cells[b] = (1, z3.BitVec(self.fresh('junk'), 8))
        v = self._assemble(o, off, n)
        if v is UNDEF:
            # an UNDEF value stored by a wider store: replace it
            bs = []
            for b in range(off, off + n):
                cells.pop(b, None)
            self._clear(o, off, n)
            v = z3.BitVec(self.fresh('junk'), 8 * n)
            cells[off] = (n, v)
        return v

    def has_junk(self, e):
        if not isinstance(e, z3.ExprRef):
            return False
        s = e.sexpr() if e.num_args() < 64 else None
        if s is not None:
            return 'junk!' in s
        return 'junk!' in e.sexpr()

    def _as_type(self, v, ty):
        k = ty.k
        if k == 'double' or k == 'float':
            if type(v) is int:
                if k == 'double':
                    d = struct.unpack('<d', struct.pack('<Q', v))[0]
                else:
                    d = struct.unpack('<f', struct.pack('<I', v))[0]
                if d != d or d in (float('inf'), float('-inf')):
                    return d
                return Fraction(d)
            return v
        if k == 'int':
            if ty.bits == 1:
                if type(v) is int:
                    return v & 1
                if z3.is_bv(v):
                    return z3.Extract(0, 0, v) == z3.BitVecVal(1, 1)
            return v
        return v

    def _assemble(self, o, off, n):
        cells = o.cells
        out = []
        pos = off
        allfill = True
        while pos < off + n:
            c = cells.get(pos)
            if c is not None:
                if pos + c[0] > off + n:
                    # cell extends past the requested range
                    bs = self._tobytes(c[1], c[0])
                    out.extend(bs[:off + n - pos])
                    pos = off + n
                else:
                    out.extend(self._tobytes(c[1], c[0]))
                    pos += c[0]
                allfill = False
                continue
            # maybe inside a larger cell starting earlier
            found = False
            for back in range(1, 16):
                c2 = cells.get(pos - back)
                if c2 is not None:
                    if pos - back + c2[0] > pos:
                        bs = self._tobytes(c2[1], c2[0])
                        take = min(pos - back + c2[0], off + n) - pos
                        out.extend(bs[back:back + take])
                        pos += take
                        found = True
                        allfill = False
                    break
            if found:
                continue
            if o.fill is None:
                out.append(UNDEF)
            else:
                out.append(o.fill)
            pos += 1
        if all(type(b) is int for b in out):
            v = 0
            for i, b in enumerate(out):
                v |= b << (8 * i)
            return v
        if any(b is UNDEF for b in out):
            return UNDEF
        # symbolic bytes
        bv = None
        for b in out:
            t = z3.BitVecVal(b, 8) if type(b) is int else b
            bv = t if bv is None else z3.Concat(t, bv)
        return bv

    def memcpy(self, st, dst, src, n, what='memcpy'):
        if n == 0:
            return
        soid, soff, so = self._obj(st, src, n, what + ' source read')
        doid, doff, do = self._obj(st, dst, n, what + ' destination write')
        do = st.wobj(doid)
        if doid == soid:
            so = do
        # gather source cells
        items = []
        pos = soff
        cells = so.cells
        # split partially covered cells at the borders
        for o2 in range(max(0, soff - 15), soff + n):
            c = cells.get(o2)
            if c is None:
                continue
            if o2 + c[0] <= soff:
                continue
            if o2 < soff or o2 + c[0] > soff + n:
                if doid != soid:
                    so = st.wobj(soid)
                    cells = so.cells
                self._split(so, o2)
        for o2 in range(soff, soff + n):
            c = cells.get(o2)
            if c is not None:
                items.append((o2 - soff, c))
        filled = so.fill
        self._clear(do, doff, n)
        # bytes that are in no source cell: take source fill
        if filled is not None and do.fill is None:
            covered = set()
            for rel, c in items:
                covered.update(range(rel, rel + c[0]))
            for rel in range(n):
                if rel not in covered:
                    do.cells[doff + rel] = (1, filled)
        elif filled is None and do.fill is not None:
            covered = set()
            for rel, c in items:
                covered.update(range(rel, rel + c[0]))
            for rel in range(n):
                if rel not in covered:
                    do.cells[doff + rel] = (1, UNDEF)
        for rel, c in items:
            do.cells[doff + rel] = c

    def memset(self, st, dst, byte, n):
        if n == 0:
            return
        doid, doff, do = self._obj(st, dst, n, 'memset')
        do = st.wobj(doid)
        self._clear(do, doff, n)
        if doff == 0 and n == do.size and type(byte) is int:
            do.fill = byte if byte == 0 else do.fill
            if byte == 0:
                do.cells.clear()
                return
        for i in range(n):
            do.cells[doff + i] = (1, byte)

    def cstring(self, st, addr, maxlen=4096):
        out = bytearray()
        for i in range(maxlen):
            b = self.load(st, addr + i, F.I8)
            if type(b) is not int:
                raise EncodingLimit('symbolic byte in C string')
            if b == 0:
                return out.decode('latin1')
            out.append(b)
        raise EncodingLimit('unterminated C string')

    # ---------------------------------------------------------------- GEP
    def gep(self, base, sty, idx, ity=None):
        ty = sty
        off = 0
        sym = None
        first = True
        for n, i in enumerate(idx):
            if first:
                es = sizeof(ty)
                first = False
            else:
                k = ty.k
                if k == 'struct':
                    off += field_offset(ty, i)
                    ty = ty.fields[i]
                    continue
                elif k == 'array' or k == 'vector':
                    ty = ty.elem
                    es = sizeof(ty)
                else:
                    raise UnsupportedIR('gep into %r' % (ty,))
            if type(i) is int:
                bits = ity[n].bits if ity is not None else 64
                if i >> (bits - 1):
                    i -= 1 << bits
                off += i * es
            else:
                if i is UNDEF:
                    raise PathEnd('uninit', 'undef index in address computation')
                t = i
                if t.size() < 64:
                    t = z3.SignExt(64 - t.size(), t)
                t = t * z3.BitVecVal(es, 64)
                sym = t if sym is None else sym + t
        if sym is not None:
            if type(base) is int:
                return z3.simplify(sym + z3.BitVecVal((base + off) & M64, 64))
            return z3.simplify(sym + base + z3.BitVecVal(off & M64, 64))
        if type(base) is int:
            return (base + off) & M64
        if base is UNDEF:
            raise PathEnd('uninit', 'address computed from an uninitialised pointer')
        return z3.simplify(base + z3.BitVecVal(off & M64, 64))

    # ---------------------------------------------------------------- solver
    def solve(self, cons, timeout=None):
        s = z3.Solver()
        s.set('timeout', timeout or self.qtimeout)
        for c in cons:
            s.add(c)
        t0 = time.time()
        r = s.check()
        self.res.queries += 1
        self.res.solver_time += time.time() - t0
        if time.time() - t0 > 1.0 and os.environ.get('VERIF_SLOWLOG'):
            print('SLOWQ %.1fs %s n=%d last=%s' % (time.time() - t0, r, len(cons), str(cons[-1])[:300].replace('\n', ' ')), flush=True)
        if r == z3.sat:
            return 'sat', s.model()
        if r == z3.unsat:
            return 'unsat', None
        return 'unknown', None

    def feasible(self, st, cond):
        """is path ∧ cond satisfiable?  returns 'sat'/'unsat'/'unknown' (+ updates nothing)"""
        if st.model is not None:
            try:
                v = st.model.eval(cond, model_completion=True)
                if z3.is_true(v):
                    return 'sat', st.model
            except z3.Z3Exception:
                pass
        return self.solve(st.path + [cond])

    def as_bool(self, c):
        if type(c) is int:
            return bool(c & 1)
        if z3.is_bool(c):
            return c
        if z3.is_bv(c):
            return c != z3.BitVecVal(0, c.size())
        if c is UNDEF:
            raise PathEnd('uninit', 'branch on an uninitialised/undef value')
        raise EncodingLimit('condition %r' % (c,))

    def branch(self, st, cond):
        """returns list of (state, taken:boolean) for feasible outcomes; st is reused for the first."""
        c = self.as_bool(cond)
        if c is True or c is False:
            return [(st, c)]
        c = z3.simplify(c)
        if z3.is_true(c):
            return [(st, True)]
        if z3.is_false(c):
            return [(st, False)]
        if self.has_junk(c):
            raise PathEnd('uninit', 'branch depends on uninitialised memory')
        nc = z3.Not(c)
        r1, m1 = self.feasible(st, c)
        if r1 == 'unsat':
            st.path.append(nc)
            return [(st, False)]
        r2, m2 = self.feasible(st, nc)
        if r2 == 'unsat':
            st.path.append(c)
            if r1 == 'unknown':
                pass
            return [(st, True)]
        # both possible (or unknown)
        s2 = st.clone()
        st.path.append(c)
        st.model = m1
        if r1 == 'unknown':
            st.unsure = True
        s2.path.append(nc)
        s2.model = m2
        if r2 == 'unknown':
            s2.unsure = True
        st.depth += 1
        s2.depth += 1
        return [(st, True), (s2, False)]

    def concretize(self, st, v, limit=64, what='value'):
        """fork over the feasible values of bit-vector v: returns [(state, int)]"""
        if type(v) is int:
            return [(st, v)]
        if v is UNDEF:
            raise PathEnd('uninit', 'use of an uninitialised/undef %s' % what)
        v = z3.simplify(v)
        if z3.is_bv_value(v):
            return [(st, v.as_long())]
        if self.has_junk(v):
            raise PathEnd('uninit', '%s depends on uninitialised memory' % what)
        out = []
        excl = []
        cur = st
        while True:
            r, m = self.solve(st.path + excl)
            if r == 'unsat':
                break
            if r == 'unknown':
                raise EncodingLimit('cannot enumerate values of symbolic %s' % what)
            val = m.eval(v, model_completion=True).as_long()
            out.append((val, m))
            excl.append(v != z3.BitVecVal(val, v.size()))
            if len(out) > limit:
                raise EncodingLimit('more than %d feasible values for symbolic %s' % (limit, what))
        res = []
        for i, (val, m) in enumerate(out):
            s2 = st if i == len(out) - 1 else st.clone()
            s2.path.append(v == z3.BitVecVal(val, v.size()))
            s2.model = m
            s2.depth += 1
            res.append((s2, val))
        return res

    # ---------------------------------------------------------------- run
    def run(self, entry):
        st0 = self.init_state()
        # global constructors (concrete)
        for c in self.mod.ctors:
            self.call_to_completion(st0, c)
        f = self.mod.funcs[entry]
        self.push_frame(st0, f, [], None)
        work = [st0]
        res = self.res
        while work:
            st = work.pop()
            if res.paths >= self.max_paths:
                res.errors.append('path cap %d reached' % self.max_paths)
                break
            try:
                forks = self.exec_path(st)
                if forks:
                    work.extend(forks)
                    continue
                kind = 'ok'
            except PathEnd as e:
                kind = e.kind
                if kind in ('memory', 'uninit', 'overflow', 'divzero', 'trap', 'uncaught', 'bound'):
                    self.issue(st, kind, e.msg)
            except EncodingLimit as e:
                kind = 'encoding_limit'
                res.errors.append('encoding limit: %s @ %s' % (e, self.where(st)))
            except UnsupportedIR as e:
                kind = 'unsupported'
                res.errors.append('unsupported IR: %s @ %s' % (e, self.where(st)))
            res.paths += 1
            res.steps += st.steps
            res.ended[kind] = res.ended.get(kind, 0) + 1
            if st.trace:
                res.records.append(st.trace)
            if self.stop_on_violation and res.violations:
                break
        return res

    def where(self, st):
        out = []
        for f in st.frames[-4:]:
            out.append('%s:%s' % (f.fn.name[:60], f.block.name if f.block else '?'))
        return ' < '.join(reversed(out))

    def issue(self, st, kind, msg):
        m = self.model_of(st)
        self.res.issues.append(dict(kind=kind, msg=msg, where=self.where(st), inputs=m,
                                    stack=[f.fn.name for f in st.frames]))

    def model_of(self, st, model=None):
        if model is None:
            model = st.model
            if model is None:
                r, model = self.solve(st.path)
                if r != 'sat':
                    return None
        out = {}
        for name, var in st.inputs.items():
            if type(var) in (int, Fraction):
                out[name] = str(var)
                continue
            v = model.eval(var, model_completion=True)
            if z3.is_bv_value(v):
                x = v.as_long()
                if x >> (v.size() - 1):
                    x -= 1 << v.size()
                out[name] = x
            elif z3.is_rational_value(v):
                out[name] = str(v.as_fraction())
            elif z3.is_algebraic_value(v):
                out[name] = v.approx(20).as_decimal(20).rstrip('?')
            else:
                out[name] = str(v)
        return out

    def call_to_completion(self, st, fname):
        f = self.mod.funcs[fname]
        depth = len(st.frames)
        self.push_frame(st, f, [], None)
        forks = self.exec_path(st, until_depth=depth)
        if forks:
            raise EncodingLimit('fork inside global constructor %s' % fname)

    def push_frame(self, st, f, args, call):
        if not f.defined:
            raise UnsupportedIR('call to undefined function %s' % f.name)
        fr = Frame(f)
        for n, a in zip(f.pnames, args):
            fr.regs[n] = a
        if f.vararg:
            fr.vargs = args[len(f.pnames):]
        fr.block = f.blocks[f.order[0]]
        fr.idx = 0
        fr.call = call
        st.frames.append(fr)
        if len(st.frames) > 400:
            raise PathEnd('bound', 'call depth > 400')
        self.res.funcs.add(f.name)

    # main interpreter loop: returns list of forked states (to be scheduled) or None when the path ended
    def exec_path(self, st, until_depth=None):
        H = self.handlers
        max_steps = self.max_steps
        TAIL = self.tail
        while True:
            frames = st.frames
            fr = frames[-1]
            ins = fr.block.instrs[fr.idx]
            st.steps += 1
            if TAIL is not None:
                TAIL.append('%s | %s' % (fr.fn.name[-50:], ins.text.strip()[:200]))
            if st.steps > max_steps:
                raise PathEnd('bound', 'step cap %d exceeded' % max_steps)
            r = H[ins.op](self, st, fr, ins)
            if r is None:
                fr.idx += 1
                continue
            if r is RET:
                frames = st.frames
                if until_depth is not None and len(frames) == until_depth:
                    return None
                if not frames:
                    if st.cur_tid != 0:
                        # a cooperative thread ran to completion: control goes back to the main thread
                        st.finished.add(st.cur_tid)
                        st.frames = st.threads.pop(0)
                        st.cur_tid = 0
                        continue
                    return None
                continue
            if r is JUMP:
                continue
            # list of states (forks); all have their pc set already
            return r

    # ---- control helpers
    def jump(self, st, fr, label):
        blk = fr.fn.blocks[label]
        prev = fr.block.name
        if blk.phis:
            vals = []
            for ph in blk.phis:
                for v, lab in zip(ph.ops, ph.extra):
                    if lab == prev:
                        vals.append(self.ev(fr, v))
                        break
                else:
                    raise UnsupportedIR('phi without incoming edge from %s' % prev)
            for ph, v in zip(blk.phis, vals):
                fr.regs[ph.res] = v
        # loop bound accounting on back edges (cheap approximation: count entries per block per frame depth)
        key = (len(st.frames), fr.fn.name, label)
        c = st.loops.get(key, 0) + 1
        st.loops[key] = c
        if c > self.max_loop:
            raise PathEnd('bound', 'block %s of %s entered more than %d times in one activation' % (label, fr.fn.name, self.max_loop))
        fr.prev = prev
        fr.block = blk
        fr.idx = len(blk.phis)

    def ev(self, fr, v):
        if v.k == 'local':
            try:
                return fr.regs[v.v]
            except KeyError:
                raise UnsupportedIR('use of undefined register %%%s in %s' % (v.v, fr.fn.name))
        c = v.extra if v.k in ('int', 'fp', 'null') and False else None
        return self.const(v)

    def do_return(self, st, val):
        fr = st.frames.pop()
        for a in fr.allocas:
            o = st.mem.get(a)
            if o is not None:
                o = st.wobj(a)
                o.live = False
        # drop loop counters of this activation
        d = len(st.frames) + 1
        if st.loops:
            for k in [k for k in st.loops if k[0] >= d]:
                del st.loops[k]
        if not st.frames:
            return
        caller = st.frames[-1]
        call = fr.call
        if call is not None:
            if call.res is not None:
                caller.regs[call.res] = val
            if call.op == 'invoke':
                self.jump(st, caller, call.extra[0])
            else:
                caller.idx += 1

    def complete_call(self, s, ins, val):
        """finish a call/invoke instruction in state s (used by builtins that fork)"""
        f2 = s.frames[-1]
        if ins.res is not None:
            f2.regs[ins.res] = val
        if ins.op == 'invoke':
            self.jump(s, f2, ins.extra[0])
        else:
            f2.idx += 1

    def unwind(self, st):
        """propagate st.exc: find the innermost invoke whose landing pad accepts; returns JUMP or raises PathEnd"""
        while st.frames:
            fr = st.frames[-1]
            ins = fr.block.instrs[fr.idx]
            if ins.op == 'invoke':
                lp_label = ins.extra[1]
                blk = fr.fn.blocks[lp_label]
                lp = blk.instrs[len(blk.phis)]
                if lp.op != 'landingpad':
                    raise UnsupportedIR('unwind target without landingpad')
                cleanup, clauses = lp.extra
                sel = 0
                hit = cleanup
                for kind, cv in clauses:
                    if kind == 'catch':
                        ti = self.const(cv)
                        if ti == 0 or self.type_matches(st, st.exc[1], ti):
                            sel = self.typeid_for(ti)
                            hit = True
                            break
                    else:
                        raise UnsupportedIR('filter clause in landingpad')
                if hit:
                    self.jump(st, fr, lp_label)
                    fr.regs[lp.res] = (st.exc[0], sel)
                    fr.idx += 1
                    return JUMP
            # pop the frame
            fr = st.frames.pop()
            for a in fr.allocas:
                if a in st.mem:
                    st.wobj(a).live = False
            d = len(st.frames) + 1
            for k in [k for k in st.loops if k[0] >= d]:
                del st.loops[k]
        raise PathEnd('uncaught', 'uncaught exception of type %s' % self.typeinfo_name(st, st.exc[1]))

    def typeid_for(self, ti):
        if ti == 0:
            return 1
        t = self.typeid.get(ti)
        if t is None:
            t = self.typeid[ti] = len(self.typeid) + 2
        return t

    def typeinfo_name(self, st, ti):
        o = st.mem.get(ti >> OBJ_SHIFT)
        return o.name if o is not None else hex(ti)

    def type_matches(self, st, thrown, target):
        """thrown type_info object equals target or (single inheritance chain) derives from it"""
        seen = 0
        cur = thrown
        STD_BASE = {'_ZTISt11logic_error': '_ZTISt9exception', '_ZTISt13runtime_error': '_ZTISt9exception',
                    '_ZTISt12out_of_range': '_ZTISt11logic_error', '_ZTISt12length_error': '_ZTISt11logic_error',
                    '_ZTISt16invalid_argument': '_ZTISt11logic_error', '_ZTISt12domain_error': '_ZTISt11logic_error',
                    '_ZTISt14overflow_error': '_ZTISt13runtime_error', '_ZTISt11range_error': '_ZTISt13runtime_error',
                    '_ZTISt9bad_alloc': '_ZTISt9exception', '_ZTISt8bad_cast': '_ZTISt9exception',
                    '_ZTISt20bad_array_new_length': '_ZTISt9bad_alloc'}
        tname = self.typeinfo_name(st, target)
        while cur and seen < 16:
            if cur == target:
                return True
            o = st.mem.get(cur >> OBJ_SHIFT)
            # type_info objects of libstdc++ classes live in libstdc++.so: their base chain is known
            if o is not None and o.name in STD_BASE:
                base = STD_BASE[o.name]
                if base == tname:
                    return True
                nxt = self.gaddr.get(base)
                if nxt is None:
                    # base type_info not referenced by the module: walk names only
                    while base in STD_BASE:
                        base = STD_BASE[base]
                        if base == tname:
                            return True
                    return False
                cur = nxt
                seen += 1
                continue
            if o is None or o.size < 24:
                return False
            # __si_class_type_info: { vtable*, name*, base* }
            c = o.cells.get(16)
            if c is None or type(c[1]) is not int:
                return False
            cur = c[1]
            seen += 1
        return False


RET = object()
JUMP = object()


# --------------------------------------------------------------------------
# instruction handlers
# --------------------------------------------------------------------------
def _mask(bits):
    return (1 << bits) - 1


def _signed(v, bits):
    return v - (1 << bits) if v >> (bits - 1) else v


def to_bv(v, bits):
    if type(v) is int:
        return z3.BitVecVal(v, bits)
    if z3.is_bool(v):
        return z3.If(v, z3.BitVecVal(1, bits), z3.BitVecVal(0, bits))
    if type(v) is Fraction:
        if bits == 64:
            return z3.BitVecVal(struct.unpack('<Q', struct.pack('<d', float(v)))[0], 64)
        raise EncodingLimit('real used as i%d' % bits)
    if v is UNDEF:
        raise PathEnd('uninit', 'arithmetic on an uninitialised/undef integer')
    if type(v) is SR:
        raise EncodingLimit('symbolic real used in integer arithmetic')
    return v


def intval(v):
    if type(v) is Fraction:
        return struct.unpack('<Q', struct.pack('<d', float(v)))[0]
    return v


def h_binop(E, st, fr, ins):
    a = E.ev(fr, ins.ops[0])
    b = E.ev(fr, ins.ops[1])
    op = ins.op
    ty = ins.ty
    if ty.k == 'vector':
        raise UnsupportedIR('vector arithmetic')
    bits = ty.bits
    if type(a) is Fraction:
        a = intval(a)
    if type(b) is Fraction:
        b = intval(b)
    if type(a) is int and type(b) is int:
        m = (1 << bits) - 1
        if op == 'add':
            r = (a + b) & m
            if ins.extra[0] and bits > 1:
                sa, sb = _signed(a, bits), _signed(b, bits)
                if not (-(1 << (bits - 1)) <= sa + sb < (1 << (bits - 1))):
                    raise PathEnd('overflow', 'signed overflow in %s' % ins.text.strip())
        elif op == 'sub':
            r = (a - b) & m
            if ins.extra[0] and bits > 1:
                sa, sb = _signed(a, bits), _signed(b, bits)
                if not (-(1 << (bits - 1)) <= sa - sb < (1 << (bits - 1))):
                    raise PathEnd('overflow', 'signed overflow in %s' % ins.text.strip())
        elif op == 'mul':
            r = (a * b) & m
            if ins.extra[0] and bits > 1:
                sa, sb = _signed(a, bits), _signed(b, bits)
                if not (-(1 << (bits - 1)) <= sa * sb < (1 << (bits - 1))):
                    raise PathEnd('overflow', 'signed overflow in %s' % ins.text.strip())
        elif op == 'and':
            r = a & b
        elif op == 'or':
            r = a | b
        elif op == 'xor':
            r = a ^ b
        elif op == 'shl':
            if b >= bits:
                raise PathEnd('overflow', 'shift amount %d >= width in %s' % (b, ins.text.strip()))
            r = (a << b) & m
        elif op == 'lshr':
            if b >= bits:
                raise PathEnd('overflow', 'shift amount %d >= width in %s' % (b, ins.text.strip()))
            r = a >> b
        elif op == 'ashr':
            if b >= bits:
                raise PathEnd('overflow', 'shift amount %d >= width in %s' % (b, ins.text.strip()))
            r = (_signed(a, bits) >> b) & m
        elif op == 'udiv':
            if b == 0:
                raise PathEnd('divzero', 'integer division by zero')
            r = a // b
        elif op == 'urem':
            if b == 0:
                raise PathEnd('divzero', 'integer remainder by zero')
            r = a % b
        elif op == 'sdiv':
            if b == 0:
                raise PathEnd('divzero', 'integer division by zero')
            sa, sb = _signed(a, bits), _signed(b, bits)
            q = abs(sa) // abs(sb)
            if (sa < 0) != (sb < 0):
                q = -q
            r = q & m
        elif op == 'srem':
            if b == 0:
                raise PathEnd('divzero', 'integer remainder by zero')
            sa, sb = _signed(a, bits), _signed(b, bits)
            q = abs(sa) % abs(sb)
            if sa < 0:
                q = -q
            r = q & m
        else:
            raise UnsupportedIR(op)
        fr.regs[ins.res] = r
        return None
    if a is UNDEF or b is UNDEF:
        # and/or with a constant that masks everything is fine, otherwise propagate undef lazily
        fr.regs[ins.res] = UNDEF
        return None
    # symbolic
    if bits == 1:
        ba = E.as_bool(a)
        bb = E.as_bool(b)
        if op == 'and':
            r = z3.And(ba, bb) if not (ba is True or bb is True) else (bb if ba is True else ba)
            if ba is False or bb is False:
                r = 0
        elif op == 'or':
            if ba is True or bb is True:
                r = 1
            elif ba is False:
                r = bb
            elif bb is False:
                r = ba
            else:
                r = z3.Or(ba, bb)
        elif op == 'xor':
            if bb is True:
                r = z3.Not(ba)
            elif ba is True:
                r = z3.Not(bb)
            elif bb is False:
                r = ba
            elif ba is False:
                r = bb
            else:
                r = z3.Xor(ba, bb)
        elif op in ('add', 'sub'):
            r = z3.Xor(ba if z3.is_bool(ba) else z3.BoolVal(ba), bb if z3.is_bool(bb) else z3.BoolVal(bb))
        else:
            raise UnsupportedIR('i1 ' + op)
        fr.regs[ins.res] = r
        return None
    za = to_bv(a, bits)
    zb = to_bv(b, bits)
    if op == 'add':
        r = za + zb
        if ins.extra[0]:
            E.monitor(st, z3.And(z3.BVAddNoOverflow(za, zb, True), z3.BVAddNoUnderflow(za, zb)), 'overflow', ins)
    elif op == 'sub':
        r = za - zb
        if ins.extra[0]:
            E.monitor(st, z3.And(z3.BVSubNoOverflow(za, zb), z3.BVSubNoUnderflow(za, zb, True)), 'overflow', ins)
    elif op == 'mul':
        r = za * zb
        if ins.extra[0]:
            E.monitor(st, z3.And(z3.BVMulNoOverflow(za, zb, True), z3.BVMulNoUnderflow(za, zb)), 'overflow', ins)
    elif op == 'and':
        r = za & zb
    elif op == 'or':
        r = za | zb
    elif op == 'xor':
        r = za ^ zb
    elif op == 'shl':
        r = za << zb
    elif op == 'lshr':
        r = z3.LShR(za, zb)
    elif op == 'ashr':
        r = za >> zb
    elif op in ('udiv', 'urem', 'sdiv', 'srem'):
        E.monitor(st, zb != z3.BitVecVal(0, bits), 'divzero', ins)
        r = {'udiv': z3.UDiv, 'urem': z3.URem, 'sdiv': lambda x, y: x / y, 'srem': z3.SRem}[op](za, zb)
    else:
        raise UnsupportedIR(op)
    r = z3.simplify(r)
    if z3.is_bv_value(r):
        r = r.as_long()
    fr.regs[ins.res] = r
    return None


def h_fbin(E, st, fr, ins):
    a = E.ev(fr, ins.ops[0])
    b = E.ev(fr, ins.ops[1])
    op = ins.op
    if a is UNDEF or b is UNDEF:
        fr.regs[ins.res] = UNDEF
        return None
    if type(a) is float or type(b) is float:
        fr.regs[ins.res] = _float_op(op, a, b)
        return None
    if op == 'fadd':
        r = radd(a, b)
    elif op == 'fsub':
        r = rsub(a, b)
    elif op == 'fmul':
        r = rmul(a, b)
    elif op == 'fdiv':
        r = E.rdiv(st, a, b, ins)
    else:
        raise UnsupportedIR(op)
    fr.regs[ins.res] = r
    return None


def _float_op(op, a, b):
    a = float(a) if not isinstance(a, float) else a
    b = float(b) if not isinstance(b, float) else b
    try:
        r = {'fadd': a + b, 'fsub': a - b, 'fmul': a * b}.get(op)
        if r is None:
            r = a / b
    except ZeroDivisionError:
        r = float('nan')
    if r != r or r in (float('inf'), float('-inf')):
        return r
    return Fraction(r)


def h_fneg(E, st, fr, ins):
    a = E.ev(fr, ins.ops[0])
    if a is UNDEF:
        fr.regs[ins.res] = UNDEF
        return None
    fr.regs[ins.res] = -a if type(a) is float else rneg(a)
    return None


_ICMP = {
    'eq': lambda a, b: a == b, 'ne': lambda a, b: a != b,
    'ult': z3.ULT, 'ule': z3.ULE, 'ugt': z3.UGT, 'uge': z3.UGE,
    'slt': lambda a, b: a < b, 'sle': lambda a, b: a <= b, 'sgt': lambda a, b: a > b, 'sge': lambda a, b: a >= b,
}


def h_icmp(E, st, fr, ins):
    a = E.ev(fr, ins.ops[0])
    b = E.ev(fr, ins.ops[1])
    pred = ins.extra
    ty = ins.ty
    bits = ty.bits if ty.k == 'int' else 64
    if type(a) is Fraction:
        a = intval(a)
    if type(b) is Fraction:
        b = intval(b)
    if type(a) is int and type(b) is int:
        if pred == 'eq':
            r = a == b
        elif pred == 'ne':
            r = a != b
        elif pred[0] == 'u':
            r = {'ult': a < b, 'ule': a <= b, 'ugt': a > b, 'uge': a >= b}[pred]
        else:
            sa, sb = _signed(a, bits), _signed(b, bits)
            r = {'slt': sa < sb, 'sle': sa <= sb, 'sgt': sa > sb, 'sge': sa >= sb}[pred]
        fr.regs[ins.res] = int(r)
        return None
    if a is UNDEF or b is UNDEF:
        fr.regs[ins.res] = UNDEF
        return None
    if bits == 1:
        ba, bb = E.as_bool(a), E.as_bool(b)
        ba = z3.BoolVal(ba) if type(ba) is bool else ba
        bb = z3.BoolVal(bb) if type(bb) is bool else bb
        if pred == 'eq':
            r = ba == bb
        elif pred == 'ne':
            r = z3.Xor(ba, bb)
        else:
            raise UnsupportedIR('i1 icmp ' + pred)
    else:
        r = _ICMP[pred](to_bv(a, bits), to_bv(b, bits))
    r = z3.simplify(r)
    if z3.is_true(r):
        r = 1
    elif z3.is_false(r):
        r = 0
    fr.regs[ins.res] = r
    return None


_FCMP = {'oeq': 'eq', 'ueq': 'eq', 'one': 'ne', 'une': 'ne', 'olt': 'lt', 'ult': 'lt', 'ole': 'le', 'ule': 'le',
         'ogt': 'gt', 'ugt': 'gt', 'oge': 'ge', 'uge': 'ge'}


def h_fcmp(E, st, fr, ins):
    a = E.ev(fr, ins.ops[0])
    b = E.ev(fr, ins.ops[1])
    pred = ins.extra
    if a is UNDEF or b is UNDEF:
        fr.regs[ins.res] = UNDEF
        return None
    if type(a) is float or type(b) is float:
        fa, fb = float(a), float(b)
        nan = fa != fa or fb != fb
        if pred == 'ord':
            r = not nan
        elif pred == 'uno':
            r = nan
        elif nan:
            r = pred[0] == 'u'
        else:
            p = _FCMP[pred]
            r = {'lt': fa < fb, 'le': fa <= fb, 'gt': fa > fb, 'ge': fa >= fb, 'eq': fa == fb, 'ne': fa != fb}[p]
        fr.regs[ins.res] = int(r)
        return None
    if pred == 'ord' or pred == 'true':
        rparts(a), rparts(b)
        fr.regs[ins.res] = 1
        return None
    if pred == 'uno' or pred == 'false':
        fr.regs[ins.res] = 0
        return None
    r = rcmp(_FCMP[pred], a, b)
    if r is True:
        r = 1
    elif r is False:
        r = 0
    fr.regs[ins.res] = r
    return None


def h_cast(E, st, fr, ins):
    a = E.ev(fr, ins.ops[0])
    op = ins.op
    ty = ins.ty
    sty = ins.extra
    if op in ('bitcast', 'addrspacecast'):
        if ty.k == 'double' and sty.k == 'int':
            a = E._as_type(a, ty) if type(a) is int else a
        elif ty.k == 'int' and sty.k == 'double':
            if type(a) is Fraction:
                a = intval(a)
        fr.regs[ins.res] = a
        return None
    if op == 'ptrtoint' or op == 'inttoptr':
        if ty.k == 'int' and ty.bits < 64 and type(a) is int:
            a &= _mask(ty.bits)
        fr.regs[ins.res] = a
        return None
    if a is UNDEF:
        fr.regs[ins.res] = UNDEF
        return None
    if op == 'trunc':
        if type(a) is Fraction:
            a = intval(a)
        if type(a) is int:
            r = a & _mask(ty.bits)
        elif ty.bits == 1:
            r = z3.simplify(z3.Extract(0, 0, a) == z3.BitVecVal(1, 1))
        else:
            r = z3.simplify(z3.Extract(ty.bits - 1, 0, a))
    elif op == 'zext':
        if type(a) is int:
            r = a
        elif z3.is_bool(a):
            r = z3.If(a, z3.BitVecVal(1, ty.bits), z3.BitVecVal(0, ty.bits))
        else:
            r = z3.ZeroExt(ty.bits - sty.bits, a)
    elif op == 'sext':
        if type(a) is int:
            r = _signed(a, sty.bits) & _mask(ty.bits)
        elif z3.is_bool(a):
            r = z3.If(a, z3.BitVecVal(_mask(ty.bits), ty.bits), z3.BitVecVal(0, ty.bits))
        else:
            r = z3.SignExt(ty.bits - sty.bits, a)
    elif op in ('sitofp', 'uitofp'):
        if type(a) is int:
            r = Fraction(_signed(a, sty.bits) if op == 'sitofp' else a)
        elif z3.is_bool(a):
            r = SR(z3.If(a, z3.RealVal(1), z3.RealVal(0)), 1)
        else:
            if op == 'sitofp':
                iv = z3.BV2Int(a, is_signed=True)
            else:
                iv = z3.BV2Int(a, is_signed=False)
            r = SR(z3.ToReal(iv), 1)
    elif op in ('fptosi', 'fptoui'):
        if type(a) is Fraction:
            q = abs(a.numerator) // a.denominator
            if a < 0:
                q = -q
            r = q & _mask(ty.bits)
        elif type(a) is float:
            r = UNDEF
        else:
            raise EncodingLimit('fptosi of a symbolic real')
    elif op in ('fpext', 'fptrunc'):
        r = a
    else:
        raise UnsupportedIR(op)
    fr.regs[ins.res] = r
    return None


def h_alloca(E, st, fr, ins):
    n = 1
    if ins.ops:
        n = E.ev(fr, ins.ops[0])
        if type(n) is not int:
            raise EncodingLimit('symbolic alloca count')
    a = st.alloc(max(sizeof(ins.ty) * n, 1), 'stack', None, '%s.%s' % (fr.fn.name[:40], ins.res))
    fr.allocas.append(a >> OBJ_SHIFT)
    fr.regs[ins.res] = a
    return None


def h_load(E, st, fr, ins):
    addr = E.ev(fr, ins.ops[0])
    if type(addr) is not int:
        return E.fork_on(st, fr, ins, ins.ops[0], addr, 'load address')
    fr.regs[ins.res] = E.load(st, addr, ins.ty)
    return None


def h_store(E, st, fr, ins):
    addr = E.ev(fr, ins.ops[1])
    if type(addr) is not int:
        return E.fork_on(st, fr, ins, ins.ops[1], addr, 'store address')
    E.store(st, addr, ins.ty, E.ev(fr, ins.ops[0]))
    return None


def h_gep(E, st, fr, ins):
    base = E.ev(fr, ins.ops[0])
    idx = [E.ev(fr, o) for o in ins.ops[1:]]
    fr.regs[ins.res] = E.gep(base, ins.ty, idx, [o.ty for o in ins.ops[1:]])
    return None


def h_phi(E, st, fr, ins):
    raise UnsupportedIR('phi executed directly')


def h_select(E, st, fr, ins):
    c = E.ev(fr, ins.ops[0])
    a = E.ev(fr, ins.ops[1])
    b = E.ev(fr, ins.ops[2])
    if type(c) is int:
        fr.regs[ins.res] = a if c & 1 else b
        return None
    if c is UNDEF:
        raise PathEnd('uninit', 'select on an uninitialised/undef condition')
    cb = E.as_bool(c)
    ty = ins.ty
    if a is b:
        fr.regs[ins.res] = a
        return None
    if E.resolve_selects and ty.k == 'double' and not (cb is True or cb is False):
        # is the condition decided by the path condition?  (keeps ite terms out of the arguments of exp)
        r1, m1 = E.feasible(st, cb)
        if r1 == 'unsat':
            fr.regs[ins.res] = b
            return None
        r2, m2 = E.feasible(st, z3.Not(cb))
        if r2 == 'unsat':
            fr.regs[ins.res] = a
            return None
        # undecided: do both arms agree whenever the other one would be taken (ties of a min/max)?
        try:
            ne = rcmp('ne', a, b)
            if ne is False:
                fr.regs[ins.res] = a
                return None
            if ne is not True:
                r3, _m = E.solve(st.path + [cb, ne], timeout=5000)
                if r3 == 'unsat':            # whenever a is selected it equals b
                    fr.regs[ins.res] = b
                    return None
                r4, _m = E.solve(st.path + [z3.Not(cb), ne], timeout=5000)
                if r4 == 'unsat':
                    fr.regs[ins.res] = a
                    return None
        except EncodingLimit:
            pass
    if ty.k == 'ptr':
        # pointers stay concrete: fork instead of building an ite term
        return E.fork_branch(st, fr, ins, cb)
    if ty.k == 'int':
        bits = ty.bits
        if a is UNDEF or b is UNDEF:
            return E.fork_branch(st, fr, ins, cb)
        if bits == 1:
            ba, bb = E.as_bool(a), E.as_bool(b)
            ba = z3.BoolVal(ba) if type(ba) is bool else ba
            bb = z3.BoolVal(bb) if type(bb) is bool else bb
            fr.regs[ins.res] = z3.simplify(z3.If(cb, ba, bb))
        else:
            fr.regs[ins.res] = z3.If(cb, to_bv(a, bits), to_bv(b, bits))
        return None
    if ty.k == 'double':
        if type(a) is float or type(b) is float or a is UNDEF or b is UNDEF:
            return E.fork_branch(st, fr, ins, cb)
        an, ad = rparts(a)
        bn, bd = rparts(b)
        if _same(ad, bd):
            fr.regs[ins.res] = SR(z3.If(cb, _rv(an), _rv(bn)), ad)
        else:
            fr.regs[ins.res] = SR(z3.If(cb, _rv(an), _rv(bn)), z3.If(cb, _rv(ad), _rv(bd)))
        return None
    return E.fork_branch(st, fr, ins, cb)


def h_br(E, st, fr, ins):
    if not ins.ops:
        E.jump(st, fr, ins.extra[0])
        return JUMP
    c = E.ev(fr, ins.ops[0])
    if type(c) is int:
        E.jump(st, fr, ins.extra[0] if c & 1 else ins.extra[1])
        return JUMP
    outs = E.branch(st, c)
    if len(outs) == 1:
        s, taken = outs[0]
        E.jump(s, s.frames[-1], ins.extra[0] if taken else ins.extra[1])
        return JUMP
    res = []
    for s, taken in outs:
        E.jump(s, s.frames[-1], ins.extra[0] if taken else ins.extra[1])
        res.append(s)
    return res


def h_switch(E, st, fr, ins):
    c = E.ev(fr, ins.ops[0])
    dflt, cases = ins.extra
    if type(c) is int:
        bits = ins.ty.bits
        for cv, lab in cases:
            if (cv & _mask(bits)) == c:
                E.jump(st, fr, lab)
                return JUMP
        E.jump(st, fr, dflt)
        return JUMP
    outs = E.concretize(st, c, what='switch operand')
    res = []
    for s, val in outs:
        f2 = s.frames[-1]
        tgt = dflt
        for cv, lab in cases:
            if (cv & _mask(ins.ty.bits)) == val:
                tgt = lab
                break
        E.jump(s, f2, tgt)
        res.append(s)
    if len(res) == 1 and res[0] is st:
        return JUMP
    return res


def h_ret(E, st, fr, ins):
    v = E.ev(fr, ins.ops[0]) if ins.ops else None
    E.do_return(st, v)
    return RET


def h_unreachable(E, st, fr, ins):
    raise PathEnd('trap', 'unreachable executed in %s' % fr.fn.name)


def h_call(E, st, fr, ins):
    cv = ins.ops[0]
    args = [E.ev(fr, a) for a in ins.ops[1:]]
    if cv.k == 'global':
        name = cv.v
    else:
        a = E.ev(fr, cv)
        if type(a) is not int:
            raise EncodingLimit('symbolic function pointer')
        name = E.fbyaddr.get(a)
        if name is None:
            raise PathEnd('memory', 'indirect call through a non-function pointer %#x' % a)
    name = E.mod.aliases.get(name, name)
    name = E.overrides.get(name, name)
    b = E.builtins.get(name)
    if b is None:
        f = E.mod.funcs.get(name)
        if f is not None and f.defined:
            E.push_frame(st, f, args, ins)
            return JUMP
        b = E.find_builtin(name)
        if b is None:
            raise UnsupportedIR('external function %s' % name)
    r = b(E, st, fr, ins, args)
    if r is FORKED:
        return st._forks
    if r is THROW:
        return E.unwind(st)
    if r is JUMP:
        return JUMP
    if ins.res is not None:
        fr.regs[ins.res] = r
    if ins.op == 'invoke':
        E.jump(st, fr, ins.extra[0])
        return JUMP
    return None


FORKED = object()
THROW = object()


def h_landingpad(E, st, fr, ins):
    raise UnsupportedIR('landingpad reached by fall-through')


def h_resume(E, st, fr, ins):
    # continue unwinding from the caller of this frame
    fr = st.frames.pop()
    for a in fr.allocas:
        if a in st.mem:
            st.wobj(a).live = False
    d = len(st.frames) + 1
    for k in [k for k in st.loops if k[0] >= d]:
        del st.loops[k]
    return E.unwind(st)


def h_extractvalue(E, st, fr, ins):
    v = E.ev(fr, ins.ops[0])
    for i in ins.extra:
        if v is UNDEF:
            break
        v = v[i]
    fr.regs[ins.res] = v
    return None


def _insert(E, agg, ty, idx, val):
    if agg is UNDEF:
        agg = E.zero_or_undef(ty, True)
    i = idx[0]
    l = list(agg)
    if len(idx) == 1:
        l[i] = val
    else:
        sub = ty.fields[i] if ty.k == 'struct' else ty.elem
        l[i] = _insert(E, l[i], sub, idx[1:], val)
    return tuple(l)


def h_insertvalue(E, st, fr, ins):
    agg = E.ev(fr, ins.ops[0])
    val = E.ev(fr, ins.ops[1])
    fr.regs[ins.res] = _insert(E, agg, ins.ty, ins.extra, val)
    return None


def h_atomicrmw(E, st, fr, ins):
    addr = E.ev(fr, ins.ops[0])
    v = E.ev(fr, ins.ops[1])
    old = E.load(st, addr, ins.ty)
    bits = ins.ty.bits
    bop = ins.extra
    if type(old) is int and type(v) is int:
        if bop == 'add':
            new = (old + v) & _mask(bits)
        elif bop == 'sub':
            new = (old - v) & _mask(bits)
        elif bop == 'xchg':
            new = v
        elif bop == 'and':
            new = old & v
        elif bop == 'or':
            new = old | v
        else:
            raise UnsupportedIR('atomicrmw ' + bop)
    else:
        if bop == 'add':
            new = to_bv(old, bits) + to_bv(v, bits)
        elif bop == 'sub':
            new = to_bv(old, bits) - to_bv(v, bits)
        elif bop == 'xchg':
            new = v
        else:
            raise UnsupportedIR('atomicrmw ' + bop)
    E.store(st, addr, ins.ty, new)
    fr.regs[ins.res] = old
    return None


def h_cmpxchg(E, st, fr, ins):
    addr = E.ev(fr, ins.ops[0])
    c = E.ev(fr, ins.ops[1])
    nv = E.ev(fr, ins.ops[2])
    old = E.load(st, addr, ins.ty)
    if type(old) is int and type(c) is int:
        ok = int(old == c)
        if ok:
            E.store(st, addr, ins.ty, nv)
        fr.regs[ins.res] = (old, ok)
        return None
    raise EncodingLimit('symbolic cmpxchg')


def h_nop(E, st, fr, ins):
    return None


def h_freeze(E, st, fr, ins):
    v = E.ev(fr, ins.ops[0])
    if v is UNDEF:
        v = 0 if ins.ty.k != 'double' else Fraction(0)
    fr.regs[ins.res] = v
    return None


def h_unsupported(E, st, fr, ins):
    raise UnsupportedIR('%s: %s' % (ins.extra, ins.text.strip()[:120]))


Engine.handlers = {
    'alloca': h_alloca, 'load': h_load, 'store': h_store, 'getelementptr': h_gep, 'phi': h_phi, 'select': h_select,
    'br': h_br, 'switch': h_switch, 'ret': h_ret, 'unreachable': h_unreachable, 'call': h_call, 'invoke': h_call,
    'landingpad': h_landingpad, 'resume': h_resume, 'extractvalue': h_extractvalue, 'insertvalue': h_insertvalue,
    'atomicrmw': h_atomicrmw, 'cmpxchg': h_cmpxchg, 'fence': h_nop, 'nop': h_nop, 'freeze': h_freeze,
    'icmp': h_icmp, 'fcmp': h_fcmp, 'fneg': h_fneg, 'unsupported': h_unsupported,
}
for _op in ('add', 'sub', 'mul', 'udiv', 'sdiv', 'urem', 'srem', 'shl', 'lshr', 'ashr', 'and', 'or', 'xor'):
    Engine.handlers[_op] = h_binop
for _op in ('fadd', 'fsub', 'fmul', 'fdiv', 'frem'):
    Engine.handlers[_op] = h_fbin
for _op in F._CASTS:
    Engine.handlers[_op] = h_cast


# --------------------------------------------------------------------------
# engine methods that need the handlers' vocabulary
# --------------------------------------------------------------------------
def _fork_on(self, st, fr, ins, operand, val, what):
    """operand (a register) holds a symbolic address/index: fork over its feasible values and re-execute ins"""
    if operand.k != 'local':
        raise EncodingLimit('symbolic constant address')
    outs = self.concretize(st, val, what=what)
    res = []
    for s, v in outs:
        s.frames[-1].regs[operand.v] = v
        res.append(s)
    if len(res) == 1 and res[0] is st:
        return JUMP
    return res


def _fork_branch(self, st, fr, ins, cb):
    """select that cannot be expressed as an ite term: fork"""
    outs = self.branch(st, cb)
    res = []
    for s, taken in outs:
        f2 = s.frames[-1]
        f2.regs[ins.res] = self.ev(f2, ins.ops[1] if taken else ins.ops[2])
        f2.idx += 1
        res.append(s)
    if len(res) == 1 and res[0] is st:
        return JUMP
    return res


def _monitor(self, st, ok, kind, ins):
    """ok must hold on every input of the path; otherwise record an issue and continue under ok"""
    ok = z3.simplify(ok)
    if z3.is_true(ok):
        return
    r, m = self.solve(st.path + [z3.Not(ok)])
    if r == 'sat':
        inputs = self.model_of(st, m)
        self.res.issues.append(dict(kind=kind, msg='%s possible in %s' % (kind, ins.text.strip()[:100]),
                                    where=self.where(st), inputs=inputs, stack=[f.fn.name for f in st.frames]))
        st.path.append(ok)
        st.model = None
        r2, m2 = self.solve(st.path)
        if r2 == 'unsat':
            raise PathEnd('infeasible')
        st.model = m2
    elif r == 'unknown':
        st.unsure = True


def _rdiv(self, st, a, b, ins=None):
    an, ad = rparts(a)
    bn, bd = rparts(b)
    if is_conc_real(bn):
        if bn == 0:
            raise PathEnd('divzero', 'floating-point division by zero')
        return mk_real(_mul(an, bd), _mul(ad, bn))
    # symbolic divisor: may it be zero?
    nz = bn != z3.RealVal(0)
    r, m = self.feasible(st, z3.Not(nz))
    if r == 'sat':
        self.res.issues.append(dict(kind='divzero', msg='floating-point division by zero possible',
                                    where=self.where(st), inputs=self.model_of(st, m),
                                    stack=[f.fn.name for f in st.frames]))
        st.path.append(nz)
        r2, m2 = self.solve(st.path)
        if r2 == 'unsat':
            raise PathEnd('infeasible')
        st.model = m2 if r2 == 'sat' else None
    elif r == 'unknown':
        st.path.append(nz)
        st.unsure = True
    else:
        st.path.append(nz)
    num, den = _mul(an, bd), _mul(ad, bn)
    if not is_conc_real(den) and is_pos(ad):
        # sign of the divisor under the path: lets comparisons cross-multiply without squaring denominators
        rp, _m = self.solve(st.path + [_rv(bn) <= 0], timeout=min(self.qtimeout, 5000))
        if rp == 'unsat':
            mark_pos(den)
        else:
            rn, _m = self.solve(st.path + [_rv(bn) >= 0], timeout=min(self.qtimeout, 5000))
            if rn == 'unsat':
                num, den = _neg(num), _neg(den)
                mark_pos(den)
    return mk_real(num, den)


def _find_builtin(self, name):
    from . import irs_builtins
    return irs_builtins.lookup(self, name)


Engine.fork_on = _fork_on
Engine.fork_branch = _fork_branch
Engine.monitor = _monitor
Engine.rdiv = _rdiv
Engine.find_builtin = _find_builtin
