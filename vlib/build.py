"""Front end: /repo working tree -> LLVM IR units (regenerated on every run)."""
import os, subprocess, hashlib, glob, shutil, tempfile, time
from concurrent.futures import ThreadPoolExecutor

VERIF = os.path.dirname(os.path.dirname(os.path.abspath(__file__)))
REPO = os.environ.get('VERIF_REPO', '/repo')
CLANG = 'clang++-14'
LINK = 'llvm-link-14'
OPT = 'opt-14'

GUARD = 'POMEROL_VERIF'

BASE_FLAGS = ['-std=c++11', '-O1', '-S', '-emit-llvm', '-fno-pic', '-fno-vectorize', '-fno-slp-vectorize', '-fno-unroll-loops',
              '-DNDEBUG', '-DEIGEN_DONT_VECTORIZE', '-DBOOST_MULTI_INDEX_DISABLE_COMPRESSED_ORDERED_INDEX_NODES',
              '-D' + GUARD, '-Wno-everything',
              # Production builds get libstdc++'s <stdlib.h> wrapper (using std::abs; ...) through Eigen's SSE
              # headers (emmintrin.h -> mm_malloc.h -> stdlib.h).  With EIGEN_DONT_VECTORIZE that include chain
              # disappears and unqualified abs(double) in pomerol would silently bind to ::abs(int).  Force the
              # same wrapper in, so that overload resolution is the one of the production build.
              '-include', 'stdlib.h']


def include_flags(scratch, mpi_model=True):
    fl = ['-isystem', os.path.join(VERIF, 'model', 'stdinc')]
    if mpi_model:
        fl += ['-I', os.path.join(VERIF, 'model', 'mpi')]
    fl += ['-I', os.path.join(scratch, 'inc'), '-I', os.path.join(REPO, 'include'),
           '-I', os.path.join(REPO, 'include', 'pomerol'), '-I', '/usr/include/eigen3',
           '-I', '/usr/lib/x86_64-linux-gnu/openmpi/include', '-I', '/usr/lib/x86_64-linux-gnu/openmpi/include/openmpi',
           '-I', os.path.join(VERIF, 'include'), '-I', os.path.join(VERIF, 'harness')]
    return fl


def make_scratch(tag='vcheck'):
    base = os.environ.get('VERIF_SCRATCH_BASE', '/var/tmp')
    d = tempfile.mkdtemp(prefix='pomverif-%s-' % tag, dir=base)
    return d


def write_first_include(scratch, complex_build=False):
    inc = os.path.join(scratch, 'inc', 'pomerol')
    os.makedirs(inc, exist_ok=True)
    with open(os.path.join(inc, 'first_include.h'), 'w') as f:
        f.write('#ifndef __INCLUDE_FIRST_INCLUDE_H_a83f82k\n#define __INCLUDE_FIRST_INCLUDE_H_a83f82k\n'
                '#define POMEROL_VERSION "1.3"\n#define POMEROL_CXX11\n')
        if complex_build:
            f.write('#define POMEROL_COMPLEX_MATRIX_ELEMENTS\n')
        f.write('#endif\n')


def repo_sources():
    return sorted(glob.glob(os.path.join(REPO, 'src', 'pomerol', '*.cpp')) +
                  glob.glob(os.path.join(REPO, 'src', 'mpi_dispatcher', '*.cpp')))


def sha256(path):
    h = hashlib.sha256()
    with open(path, 'rb') as f:
        h.update(f.read())
    return h.hexdigest()


def run(cmd, **kw):
    p = subprocess.run(cmd, stdout=subprocess.PIPE, stderr=subprocess.PIPE, text=True, **kw)
    return p.returncode, p.stdout, p.stderr


class BuildError(Exception):
    pass


def compile_ll(src, out, scratch, extra=(), mpi_model=True, access=False):
    cmd = [CLANG] + BASE_FLAGS + include_flags(scratch, mpi_model) + list(extra)
    if access:
        cmd.append('-fno-access-control')
    cmd += [src, '-o', out]
    rc, so, se = run(cmd)
    if rc != 0:
        raise BuildError('clang failed on %s:\n%s' % (src, se[-3000:]))
    return out


def compile_repo(scratch, complex_build=False, jobs=16, only=None):
    """compile the real pomerol translation units of the CURRENT working tree to IR"""
    write_first_include(scratch, complex_build)
    outdir = os.path.join(scratch, 'll')
    os.makedirs(outdir, exist_ok=True)
    srcs = repo_sources()
    if only is not None:
        srcs = [s for s in srcs if os.path.basename(s)[:-4] in only]
    outs = []

    def one(s):
        o = os.path.join(outdir, os.path.basename(s)[:-4] + '.ll')
        compile_ll(s, o, scratch)
        return o
    with ThreadPoolExecutor(max_workers=jobs) as ex:
        outs = list(ex.map(one, srcs))
    return outs


def link_unit(scratch, name, lls, entries, reg2mem=False):
    """llvm-link + internalize + globaldce, keep only what the entry points reach"""
    linked = os.path.join(scratch, name + '.linked.ll')
    rc, so, se = run([LINK, '-S'] + lls + ['-o', linked])
    if rc != 0:
        raise BuildError('llvm-link failed:\n' + se[-3000:])
    out = os.path.join(scratch, name + '.unit.ll')
    passes = ['-internalize', '-internalize-public-api-list=' + ','.join(entries), '-globaldce']
    if reg2mem:
        passes += ['-lowerswitch', '-reg2mem']
    rc, so, se = run([OPT, '-enable-new-pm=0', '-S'] + passes + [linked, '-o', out])
    if rc != 0:
        raise BuildError('opt failed:\n' + se[-3000:])
    return out


def source_manifest(files=None):
    out = {}
    for s in repo_sources() + sorted(glob.glob(os.path.join(REPO, 'include', 'pomerol', '*.h')) +
                                     glob.glob(os.path.join(REPO, 'include', 'mpi_dispatcher', '*.hpp'))):
        rel = os.path.relpath(s, REPO)
        if files is None or rel in files:
            out[rel] = sha256(s)
    return out
