"""Check driver: builds the units of a property from the current /repo tree, runs the engines on all
jobs in parallel, validates the translation, replays counterexamples natively, applies the known-findings
file, writes evidence/<id>.json and decides the exit code."""
import sys, os, time, json, shutil, itertools, hashlib, subprocess, traceback, glob, random
from fractions import Fraction
from concurrent.futures import ProcessPoolExecutor, ThreadPoolExecutor, as_completed

from . import build

VERIF = build.VERIF
NCPU = int(os.environ.get('VERIF_JOBS', '16'))


# ----------------------------------------------------------------------------------------------
def default_real(name):
    """must equal verif_native::default_real (FNV-1a of the name)"""
    h = 2166136261
    for ch in name.encode():
        h ^= ch
        h = (h * 16777619) & 0xffffffff
    h ^= h >> 16
    h = (h * 0x85ebca6b) & 0xffffffff
    h ^= h >> 13
    h = (h * 0xc2b2ae35) & 0xffffffff
    h ^= h >> 16
    return 0.25 + (h % 100003) / 40000.0


def e2_job(args):
    """runs in a worker process"""
    unit, fixed, opts, tag = args
    t0 = time.time()
    try:
        from . import irfront, irs
        mod = irfront.load_module(unit)
        o = dict(opts)
        o['fixed'] = fixed
        E = irs.Engine(mod, o)
        res = E.run('h_main')
        out = dict(tag=tag, fixed=fixed, ok=True, paths=res.paths, ended=res.ended, steps=res.steps,
                   queries=res.queries, solver_time=res.solver_time, checks=res.checks, reached=res.reached,
                   violations=res.violations, issues=res.issues, errors=res.errors, lemmas=sorted(res.lemmas),
                   funcs=sorted(res.funcs), records=res.records[:3], wall=time.time() - t0)
        return out
    except Exception as e:
        return dict(tag=tag, fixed=fixed, ok=False, error='%s: %s\n%s' % (type(e).__name__, e, traceback.format_exc()[-1500:]),
                    wall=time.time() - t0)


def _job_child(args, conn):
    try:
        conn.send(e2_job(args))
    except Exception as e:       # pragma: no cover
        conn.send(dict(tag=args[3], fixed=args[1], ok=False, error='child failed: %r' % (e,), wall=0.0))
    finally:
        conn.close()


def run_jobs(jobs, job_timeout):
    """own process pool: one process per job (a crash or a hang of z3 in one job must not take the run down);
    a job that dies or exceeds job_timeout is recorded as an engine error (inconclusive), never as success"""
    import multiprocessing as mp
    ctx = mp.get_context('fork')
    pending = list(enumerate(jobs))
    running = {}
    results = [None] * len(jobs)
    retried = set()
    while pending or running:
        while pending and len(running) < NCPU:
            i, a = pending.pop(0)
            pc, cc = ctx.Pipe(duplex=False)
            p = ctx.Process(target=_job_child, args=(a, cc))
            p.start()
            cc.close()
            running[i] = (p, pc, time.time(), a)
        done = []
        died = []
        for i, (p, pc, t0, a) in running.items():
            if pc.poll():
                try:
                    results[i] = pc.recv()
                except EOFError:
                    died.append(i)
                p.join(5)
                done.append(i)
            elif not p.is_alive():
                # the child may have written its result just before exiting: look once more before declaring it dead
                if pc.poll(0.2):
                    try:
                        results[i] = pc.recv()
                    except EOFError:
                        died.append(i)
                else:
                    died.append(i)
                done.append(i)
            elif time.time() - t0 > (a[2].get('job_timeout') or job_timeout):
                p.terminate()
                p.join(5)
                results[i] = dict(tag=a[3], fixed=a[1], ok=False, error='job exceeded the wall-clock cap of %d s' % (a[2].get('job_timeout') or job_timeout), wall=time.time() - t0)
                done.append(i)
        for i in died:
            p, pc, t0, a = running[i]
            if i not in retried:
                retried.add(i)           # a worker that vanished without a result (killed under memory pressure, solver crash) is run once more
                pending.append((i, a))
            else:
                results[i] = dict(tag=a[3], fixed=a[1], ok=False, error='worker process died twice (exit code %s)' % p.exitcode, wall=time.time() - t0)
        for i in done:
            running.pop(i)
        if not done:
            time.sleep(0.05)
    return results


def expand_split(split):
    if not split:
        return [{}]
    keys = sorted(split)
    out = []
    for combo in itertools.product(*[split[k] for k in keys]):
        out.append(dict(zip(keys, combo)))
    return out


# ----------------------------------------------------------------------------------------------
class Native:
    """native (sanitizer) build of the current /repo tree for replay and translator validation"""

    def __init__(self, scratch, sanitize=True, complex_build=False):
        self.scratch = scratch
        self.complex_build = complex_build
        self.sibling = None
        self.dir = os.path.join(scratch, 'native_cplx' if complex_build else 'native')
        self.lib = None
        self.sanitize = sanitize
        self.flags = ['-std=c++11', '-O1', '-g', '-DNDEBUG', '-w', '-fno-access-control', '-D' + build.GUARD]
        if sanitize:
            self.flags += ['-fsanitize=address,undefined', '-fno-omit-frame-pointer', '-fno-sanitize-recover=undefined', '-fno-sanitize=vptr']
        self.inc = ['-I', os.path.join(self.dir, 'inc'), '-I', os.path.join(build.REPO, 'include'),
                    '-I', os.path.join(build.REPO, 'include', 'pomerol'), '-I', os.path.join(build.REPO, 'src'), '-I', '/usr/include/eigen3',
                    '-I', '/usr/lib/x86_64-linux-gnu/openmpi/include', '-I', '/usr/lib/x86_64-linux-gnu/openmpi/include/openmpi',
                    '-I', os.path.join(VERIF, 'include'), '-I', os.path.join(VERIF, 'harness')]
        self.libs = ['-Wl,--wrap=exp', '-lboost_mpi', '-lboost_serialization', '-L/usr/lib/x86_64-linux-gnu/openmpi/lib', '-lmpi_cxx', '-lmpi']
        self.error = None

    def pick(self, u):
        """the native build matching the unit's configuration (real or complex matrix elements)"""
        if bool(u.get('complex')) == self.complex_build:
            return self
        if self.sibling is None:
            self.sibling = Native(self.scratch, self.sanitize, not self.complex_build)
            self.sibling.sibling = self
        return self.sibling

    def ensure_lib(self):
        if self.lib or self.error:
            return self.lib
        os.makedirs(os.path.join(self.dir, 'inc', 'pomerol'), exist_ok=True)
        with open(os.path.join(self.dir, 'inc', 'pomerol', 'first_include.h'), 'w') as f:
            f.write('#ifndef __INCLUDE_FIRST_INCLUDE_H_a83f82k\n#define __INCLUDE_FIRST_INCLUDE_H_a83f82k\n'
                    '#define POMEROL_VERSION "1.3"\n#define POMEROL_CXX11\n' +
                    ('#define POMEROL_COMPLEX_MATRIX_ELEMENTS\n' if self.complex_build else '') + '#endif\n')
        objs = []

        def one(s):
            o = os.path.join(self.dir, os.path.basename(s)[:-4] + '.o')
            rc, so, se = build.run(['g++'] + self.flags + self.inc + ['-c', s, '-o', o])
            if rc != 0:
                raise build.BuildError('native compile failed: %s\n%s' % (s, se[-2000:]))
            return o
        try:
            with ThreadPoolExecutor(max_workers=NCPU) as ex:
                objs = list(ex.map(one, build.repo_sources()))
            lib = os.path.join(self.dir, 'libpomerol_native.a')
            rc, so, se = build.run(['ar', 'rcs', lib] + objs)
            if rc != 0:
                raise build.BuildError('ar failed ' + se)
            self.lib = lib
        except build.BuildError as e:
            self.error = str(e)
        return self.lib

    def build_harness(self, harness, defs):
        if not self.ensure_lib():
            return None
        tag = harness + ''.join('_' + d.replace('=', '') for d in defs)
        exe = os.path.join(self.dir, tag + '.nat')
        if os.path.exists(exe):
            return exe
        src = os.path.join(VERIF, 'harness', harness + '.cpp')
        cmd = ['g++'] + self.flags + ['-DVERIF_NATIVE'] + ['-D' + d for d in defs] + self.inc + [src, self.lib] + self.libs + ['-o', exe]
        rc, so, se = build.run(cmd)
        if rc != 0:
            self.last_error = se[-2000:]
            return None
        return exe

    def run(self, exe, inputs, timeout=120, mpiexec=0):
        f = exe + '.%d.in' % (abs(hash(json.dumps(inputs, sort_keys=True))) % 10**9)
        with open(f, 'w') as fp:
            for k, v in inputs.items():
                fp.write('%s %s\n' % (k, v))
        env = dict(os.environ)
        env['VERIF_REPLAY'] = f
        env['ASAN_OPTIONS'] = 'detect_leaks=0:abort_on_error=0:halt_on_error=1'
        env['UBSAN_OPTIONS'] = 'print_stacktrace=1:halt_on_error=1'
        env['OMPI_ALLOW_RUN_AS_ROOT'] = '1'
        env['OMPI_ALLOW_RUN_AS_ROOT_CONFIRM'] = '1'
        try:
            cmd = [exe] if not mpiexec else ['mpiexec', '--allow-run-as-root', '--oversubscribe', '-np', str(mpiexec), exe]
            p = subprocess.run(cmd, stdout=subprocess.PIPE, stderr=subprocess.PIPE, text=True, env=env, timeout=timeout)
            return p.returncode, p.stdout, p.stderr
        except subprocess.TimeoutExpired:
            return -9, '', 'timeout'


def parse_native(out):
    failed = []
    recs = []
    reach = []
    for ln in out.split('\n'):
        if ln.startswith('FAILED '):
            failed.append(ln[7:].split(' : ')[0].strip())
        elif ln.startswith('REC '):
            p = ln.split()
            recs.append((p[1], p[2]))
        elif ln.startswith('REACH '):
            reach.append(ln[6:].strip())
    return failed, recs, reach


# ----------------------------------------------------------------------------------------------
def load_known():
    path = os.path.join(VERIF, 'known_findings.jsonl')
    out = []
    if os.path.exists(path):
        for ln in open(path):
            ln = ln.strip()
            if ln and not ln.startswith('#'):
                out.append(json.loads(ln))
    return out


def match_known(known, prop, harness, label, inputs, kind='check'):
    for k in known:
        if k.get('status') != 'known' or k.get('property') != prop:
            continue
        if k.get('harness') and k['harness'] != harness:
            continue
        if k.get('label') and k['label'] not in label:
            continue
        pat = k.get('pattern') or {}
        ok = True
        for name, val in pat.items():
            if str(inputs.get(name)) != str(val):
                ok = False
                break
        if ok:
            return k
    return None


# ----------------------------------------------------------------------------------------------
def run_property(prop_id, spec, tier, seed=0, only_unit=None, keep=False, verbose=True):
    t_start = time.time()
    scratch = build.make_scratch(prop_id)
    log = []

    def say(*a):
        msg = ' '.join(str(x) for x in a)
        log.append(msg)
        if verbose:
            print(msg, flush=True)

    exit_code = 0
    ev = dict(property_id=prop_id, tier=tier, seed=seed, level='model_checking', coverage={}, assumptions=[],
              wall_s=0.0, violations=0)
    known = load_known()
    native = Native(scratch)
    for old in glob.glob(os.path.join(VERIF, 'replay', prop_id + '-*.json')):
        try:
            os.remove(old)
        except OSError:
            pass            # a concurrent run of the same property removed it first
    try:
        units = [u for u in spec['units'] if tier in u.get('tiers', ('quick', 'thorough'))]
        if only_unit:
            units = [u for u in units if u['name'] == only_unit]
        need_complex = any(u.get('complex') for u in units)
        need_real = any(not u.get('complex') for u in units)
        t0 = time.time()
        repo_lls = {}
        if need_real:
            os.makedirs(os.path.join(scratch, 'real'), exist_ok=True)
            repo_lls[False] = build.compile_repo(os.path.join(scratch, 'real'), False)
        if need_complex:
            os.makedirs(os.path.join(scratch, 'cplx'), exist_ok=True)
            repo_lls[True] = build.compile_repo(os.path.join(scratch, 'cplx'), True)
        say('[%s] compiled %d translation units of %s to IR in %.1fs' % (prop_id, len(build.repo_sources()), build.REPO, time.time() - t0))

        # ---- build units
        from .e2run import build_unit
        t0 = time.time()

        def bu(u):
            sc = os.path.join(scratch, 'cplx' if u.get('complex') else 'real')
            return build_unit(sc, u['harness'], u.get('defs', []), tuple(u.get('models', ('mpi_single.cpp',))),
                              repo_lls[bool(u.get('complex'))], bool(u.get('complex')))
        unit_paths = {}
        build_errors = []
        with ThreadPoolExecutor(max_workers=NCPU) as ex:
            futs = {ex.submit(bu, u): u for u in units}
            for f in as_completed(futs):
                u = futs[f]
                try:
                    unit_paths[u['name']] = f.result()
                except build.BuildError as e:
                    build_errors.append('%s: %s' % (u['name'], e))
        if build_errors:
            for e in build_errors:
                say('ERROR harness does not build against the current tree:', e[:3000])
            ev['coverage'] = dict(explanation='harness build failed', evaluations=1, distinct_nontrivial=0, errors=build_errors)
            return 2, ev
        say('[%s] built %d units in %.1fs' % (prop_id, len(units), time.time() - t0))

        # ---- jobs
        jobs = []
        for u in units:
            opts = dict(query_timeout_ms=u.get('query_timeout_ms', 20000 if tier == 'quick' else 300000),
                        max_steps=u.get('max_steps', 5_000_000), max_loop=u.get('max_loop', 2000),
                        max_paths=u.get('max_paths', 200000), overrides=u.get('overrides', {}),
                        resolve_selects=u.get('resolve_selects', False), concrete_defaults=u.get('concrete', False), numeric_exp=u.get('numeric_exp', False))
            for fx in expand_split(u.get('split')):
                opts['job_timeout'] = u.get('job_timeout')
                jobs.append((unit_paths[u['name']], fx, dict(opts), u['name']))
        rnd = random.Random(seed)
        rnd.shuffle(jobs)
        # longest first is unknown; keep shuffled
        results = []
        t0 = time.time()
        results = run_jobs(jobs, int(os.environ.get('VERIF_JOB_TIMEOUT', '1500' if tier == 'quick' else '2700')))
        say('[%s] %d jobs done in %.1fs' % (prop_id, len(jobs), time.time() - t0))
        if os.environ.get('VERIF_DUMP_JOBS'):
            json.dump([dict(tag=x['tag'], fixed=x['fixed'], ok=x['ok'], wall=round(x.get('wall', 0), 1), err=(x.get('error') or '')[:80]) for x in results], open(os.environ['VERIF_DUMP_JOBS'], 'w'))

        # ---- aggregate
        agg = {}
        timed_out = []
        engine_errors = []
        all_viol = []
        all_issues = []
        funcs = set()
        lemmas = set()
        tot = dict(paths=0, queries=0, solver_time=0.0, steps=0)
        for r in results:
            a = agg.setdefault(r['tag'], dict(jobs=0, paths=0, queries=0, checks={}, reached={}, ended={}, errors=[],
                                              violations=0, issues=0, solver_time=0.0))
            a['jobs'] += 1
            if not r['ok']:
                if 'wall-clock cap' in r['error']:
                    # a job that did not finish inside its cap is INCONCLUSIVE (recorded, never counted as discharged)
                    a['timed_out'] = a.get('timed_out', 0) + 1
                    timed_out.append('%s %s' % (r['tag'], r['fixed']))
                    continue
                engine_errors.append('%s %s: %s' % (r['tag'], r['fixed'], r['error']))
                a['errors'].append(r['error'][:300])
                continue
            for k in ('paths', 'queries', 'solver_time', 'steps'):
                tot[k] += r[k]
            a['paths'] += r['paths']
            a['queries'] += r['queries']
            a['solver_time'] += r['solver_time']
            for lab, c in r['checks'].items():
                d = a['checks'].setdefault(lab, dict(discharged=0, violated=0, inconclusive=0, concrete=0))
                for k in c:
                    d[k] = d.get(k, 0) + c[k]
            for lab, n in r['reached'].items():
                a['reached'][lab] = a['reached'].get(lab, 0) + n
            for k, n in r['ended'].items():
                a['ended'][k] = a['ended'].get(k, 0) + n
            for e in r['errors']:
                engine_errors.append('%s %s: %s' % (r['tag'], r['fixed'], e))
                a['errors'].append(e[:300])
            for v in r['violations']:
                v['unit'] = r['tag']
                all_viol.append(v)
            for v in r['issues']:
                v['unit'] = r['tag']
                all_issues.append(v)
            a['violations'] += len(r['violations'])
            a['issues'] += len(r['issues'])
            funcs.update(r['funcs'])
            lemmas.update(r['lemmas'])

        # ---- witnesses
        missing = []
        nwit = 0
        for u in units:
            a = agg.get(u['name'], {})
            for w in u.get('witnesses', []):
                if a.get('reached', {}).get(w, 0) > 0:
                    nwit += 1
                else:
                    missing.append('%s:%s' % (u['name'], w))
        # ---- translator validation (concrete differential runs against the native build)
        validated = 0
        val_problems = []
        if not os.environ.get('VERIF_SKIP_VALIDATION'):
            vjobs = []
            for u in units:
                for vec in u.get('validate', []):
                    vjobs.append((u, vec))
            if vjobs:
                t0 = time.time()
                native.ensure_lib()
                if native.error:
                    val_problems.append('native build failed: ' + native.error[:500])
                else:
                    for u, vec in vjobs:
                        ok, why = validate_unit(native, unit_paths[u['name']], u, vec)
                        if ok:
                            validated += 1
                        else:
                            val_problems.append('%s %s: %s' % (u['name'], vec, why))
                say('[%s] translator validation: %d/%d concrete runs agree with the native build (%.1fs)' % (
                    prop_id, validated, len(vjobs), time.time() - t0))

        # ---- replay of counterexamples
        confirmed = []
        unconfirmed = []
        known_hits = {}
        umap = {u['name']: u for u in units}

        def dedup(vs, keyf):
            seen = {}
            for v in vs:
                seen.setdefault(keyf(v), v)
            return list(seen.values())
        cand = dedup(all_viol, lambda v: (v['unit'], v['label'], json.dumps({k: x for k, x in (v['inputs'] or {}).items() if isinstance(x, int)}, sort_keys=True)))
        cand_issues = dedup(all_issues, lambda v: (v['unit'], v['kind'], v['msg'][:60], json.dumps({k: x for k, x in (v['inputs'] or {}).items() if isinstance(x, int)}, sort_keys=True)))
        max_replay = int(os.environ.get('VERIF_MAX_REPLAY', '12'))
        os.makedirs(os.path.join(VERIF, 'replay'), exist_ok=True)
        for v in cand[:max_replay]:
            u = umap[v['unit']]
            rep = replay(native, u, v['inputs'] or {}, v['label'], None)
            rec = dict(property=prop_id, unit=v['unit'], harness=u['harness'], defs=u.get('defs', []), label=v['label'],
                       inputs=v['inputs'], kind='check', replay=rep)
            if rep['reproduced']:
                confirmed.append(rec)
            else:
                unconfirmed.append(rec)
        for v in cand_issues[:max_replay]:
            u = umap[v['unit']]
            rep = replay(native, u, v['inputs'] or {}, None, v['kind'])
            rec = dict(property=prop_id, unit=v['unit'], harness=u['harness'], defs=u.get('defs', []),
                       label='%s: %s' % (v['kind'], v['msg']), inputs=v['inputs'], kind=v['kind'], where=v.get('where'),
                       replay=rep)
            if rep['reproduced']:
                confirmed.append(rec)
            else:
                unconfirmed.append(rec)
        nviol = 0
        for rec in confirmed:
            k = match_known(known, prop_id, rec['harness'], rec['label'], rec['inputs'] or {}, rec['kind'])
            if k is not None:
                key = k.get('id') or k.get('what')
                if key not in known_hits:
                    known_hits[key] = k
                    print('KNOWN-FINDING: property=%s %s' % (prop_id, k.get('what')), flush=True)
                continue
            h = hashlib.sha1(json.dumps(rec, sort_keys=True, default=str).encode()).hexdigest()[:10]
            path = os.path.join(VERIF, 'replay', '%s-%s.json' % (prop_id, h))
            with open(path, 'w') as f:
                json.dump(rec, f, indent=1, default=str)
            print('VIOLATION property=%s replay=%s' % (prop_id, path), flush=True)
            say('   unit=%s label=%s inputs=%s' % (rec['unit'], rec['label'], json.dumps(rec['inputs'])[:600]))
            nviol += 1
        for rec in unconfirmed:
            say('NOT-REPRODUCED (symbolic counterexample did not fail natively; logged, not reported): unit=%s label=%s inputs=%s native=%s' % (
                rec['unit'], rec['label'], json.dumps(rec['inputs'])[:400], rec['replay'].get('why')))
        replay_build_failures = [rec for rec in unconfirmed if 'native build failed' in str(rec['replay'].get('why'))]
        if replay_build_failures:
            # a counterexample that could not even be replayed because the native harness does not build is NOT a pass
            val_problems.append('native replay build failed for unit %s: %s' % (replay_build_failures[0]['unit'], str(replay_build_failures[0]['replay'].get('why'))[:400]))
        if len(cand) + len(cand_issues) > 2 * max_replay:
            say('note: %d further counterexample candidates not replayed (cap %d)' % (len(cand) + len(cand_issues) - 2 * max_replay, max_replay))

        # ---- verdict
        n_disch = sum(c['discharged'] for a in agg.values() for c in a['checks'].values())
        n_conc = sum(c['concrete'] for a in agg.values() for c in a['checks'].values())
        n_inc = sum(c['inconclusive'] for a in agg.values() for c in a['checks'].values())
        n_vio = sum(c['violated'] for a in agg.values() for c in a['checks'].values())
        for e in engine_errors[:20]:
            say('ENGINE-ERROR', e[:500])
        if n_inc:
            say('INCONCLUSIVE %d queries (time-out / unknown) — recorded, not counted as discharged' % n_inc)
        if timed_out:
            say('INCONCLUSIVE %d jobs exceeded their wall-clock cap — recorded, not counted as discharged: %s' % (len(timed_out), '; '.join(timed_out[:6])))
        if missing and tier == 'thorough':
            # a witness that is missing only because jobs of its unit hit the wall-clock cap is an inconclusive exploration, not a vacuous harness
            capped_units = set(t.split(' ')[0] for t in timed_out)
            capped_missing = [m for m in missing if m.split(':')[0] in capped_units]
            if capped_missing:
                say('INCONCLUSIVE witnesses not reached because jobs of their unit were capped:', ', '.join(capped_missing))
                missing = [m for m in missing if m not in capped_missing]
        if missing:
            say('ERROR vacuity witnesses not reached:', ', '.join(missing))
        if val_problems:
            for p in val_problems[:10]:
                say('ERROR translator validation:', p[:600])
        if nviol:
            exit_code = 1
        elif missing or val_problems or engine_errors:
            exit_code = 2
        samples = []
        for r in results:
            if r.get('ok') and r.get('records'):
                samples.append(dict(unit=r['tag'], fixed=r['fixed'], path_records=r['records'][0][:12]))
            if len(samples) >= 3:
                break
        for u in units[:4]:
            samples.append(dict(unit=u['name'], harness=u['harness'], defs=u.get('defs', []), split=u.get('split'),
                                checks=agg.get(u['name'], {}).get('checks')))
        srcs = build.source_manifest()
        ev['violations'] = nviol
        ev['coverage'] = dict(
            states=max(tot['paths'], 1), transitions=max(tot['queries'], 1),
            traces_validated_against_impl=validated + len(confirmed) + len(unconfirmed),
            samples=samples[:8],
            explanation=spec.get('claim', ''),
            engine='E2 (LLVM IR symbolic executor -> z3 %s)' % __import__('z3').get_version_string(),
            bounds=spec.get('bounds', {}).get(tier, spec.get('bounds')),
            units={k: dict(jobs=a['jobs'], paths=a['paths'], queries=a['queries'], solver_time_s=round(a['solver_time'], 2),
                           checks=a['checks'], witnesses=a['reached'], path_ends=a['ended'], errors=a['errors'][:5])
                   for k, a in agg.items()},
            queries=dict(discharged=n_disch, violated=n_vio, inconclusive=n_inc, decided_concretely=n_conc),
            jobs_total=len(jobs), jobs_timed_out=timed_out[:50],
            obligations=n_disch + n_vio + n_inc, discharged=n_disch,
            witnesses_reached=nwit, witnesses_missing=missing,
            distinct_nontrivial=nwit, evaluations=max(tot['paths'], 1),
            functions_encoded=sorted(f for f in funcs if 'Pomerol' in f or 'pMPI' in f)[:400],
            n_functions_executed=len(funcs),
            compile_flags=build.BASE_FLAGS, lemma_instances=sorted(lemmas),
            solver_time_s=round(tot['solver_time'], 2), ir_steps=tot['steps'],
            source_sha256=srcs, known_findings_matched=sorted(known_hits),
            counterexamples_confirmed=len(confirmed), counterexamples_not_reproduced=len(unconfirmed),
            engine_errors=engine_errors[:20], translator_validation=dict(agree=validated, problems=val_problems[:10]),
            outside_claim=spec.get('outside', []),
        )
        ev['assumptions'] = spec.get('assumptions', [])
        say('[%s] tier=%s paths=%d queries=%d discharged=%d concrete=%d inconclusive=%d violated=%d confirmed=%d known=%d witnesses=%d missing=%d exit=%d (%.0fs)' % (
            prop_id, tier, tot['paths'], tot['queries'], n_disch, n_conc, n_inc, n_vio, len(confirmed), len(known_hits), nwit,
            len(missing), exit_code, time.time() - t_start))
        return exit_code, ev
    finally:
        ev['wall_s'] = round(time.time() - t_start, 2)
        if keep:
            print('scratch kept:', scratch)
        else:
            shutil.rmtree(scratch, ignore_errors=True)


def validate_unit(native, unit_path, u, vec):
    """concrete run in E2 (exact rationals) vs native run (doubles): records must agree"""
    native = native.pick(u)
    exe = native.build_harness(u['harness'], u.get('defs', []))
    if exe is None:
        return False, 'native harness build failed: ' + getattr(native, 'last_error', '')[:800]
    rc, out, err = native.run(exe, vec)
    if rc not in (0, 3):
        return False, 'native run rc=%s %s' % (rc, (err or out)[-400:])
    failed, nrecs, nreach = parse_native(out)
    if failed:
        return False, 'native check failed on validation vector: %s' % failed[:3]
    from . import irfront, irs
    mod = irfront.load_module(unit_path)
    E = irs.Engine(mod, dict(fixed=dict(vec), concrete_defaults=True, query_timeout_ms=20000,
                           max_loop=u.get('max_loop', 2000), max_steps=u.get('max_steps', 5_000_000),
                           overrides=u.get('overrides', {}), resolve_selects=u.get('resolve_selects', False)))
    res = E.run('h_main')
    if res.errors or res.violations or res.issues:
        return False, 'E2 concrete run: errors=%s violations=%s issues=%s' % (res.errors[:2], [v['label'] for v in res.violations[:2]], [i['msg'] for i in res.issues[:2]])
    if res.paths != 1:
        return False, 'E2 concrete run forked into %d paths' % res.paths
    erecs = [(t[1], t[2]) for t in (res.records[0] if res.records else []) if t[0] == 'rec']
    ereach = [t[1] for t in (res.records[0] if res.records else []) if t[0] == 'reach']
    if [r[0] for r in erecs] != [r[0] for r in nrecs]:
        return False, 'record sequences differ: E2 %s native %s' % ([r[0] for r in erecs][:8], [r[0] for r in nrecs][:8])
    if ereach != nreach:
        return False, 'reach sequences differ: E2 %s native %s' % (ereach[:8], nreach[:8])
    for (l1, v1), (l2, v2) in zip(erecs, nrecs):
        try:
            a = float(Fraction(v1)) if not isinstance(v1, (int, float)) else float(v1)
        except Exception:
            return False, 'record %s symbolic in concrete run: %s' % (l1, v1)
        b = float(v2)
        if abs(a - b) > 1e-9 * (abs(a) + abs(b)) + 1e-11:
            return False, 'record %s differs: E2 %r native %r' % (l1, a, b)
    return True, ''


def replay(native, u, inputs, label, issue_kind):
    native = native.pick(u)
    exe = native.build_harness(u['harness'], u.get('defs', []))
    if exe is None:
        return dict(reproduced=False, why='native build failed: %s' % (native.error or getattr(native, 'last_error', ''))[:600])
    rc, out, err = native.run(exe, inputs, mpiexec=u.get('mpiexec', 0))
    failed, recs, reach = parse_native(out)
    if issue_kind is None:
        if any(label == f or label.startswith(f) or f.startswith(label) for f in failed):
            return dict(reproduced=True, rc=rc, failed=failed[:5])
        if label.startswith('all ranks of a communicator call the same collective') and any('deadlock' in f for f in failed):
            # a mismatched collective is a consistency check of the MPI model; on real MPI it shows up as a hang
            return dict(reproduced=True, rc=rc, failed=failed[:5], note='collective mismatch reproduced as a hang under mpiexec')
        return dict(reproduced=False, rc=rc, why='native run did not fail the check (failed=%s, rc=%s, tail=%s)' % (failed[:3], rc, (out + err)[-200:]))
    # monitor hit: need a sanitizer report / crash / uncaught exception
    if 'AddressSanitizer' in err or 'runtime error' in err or rc in (-11, -6, 134, 139) or 'terminate called' in err:
        first = [l for l in err.split('\n') if 'ERROR' in l or 'runtime error' in l or 'terminate called' in l][:2]
        return dict(reproduced=True, rc=rc, sanitizer=first)
    return dict(reproduced=False, rc=rc, why='no sanitizer report (rc=%s)' % rc)


def write_evidence(prop_id, ev):
    d = os.path.join(VERIF, 'evidence')
    os.makedirs(d, exist_ok=True)
    with open(os.path.join(d, prop_id + '.json'), 'w') as f:
        json.dump(ev, f, indent=1, default=str)


def replay_file(prop_id, spec, path):
    """./vcheck <id> --replay <file>: rebuild the harness natively against the current /repo and re-run the input"""
    rec = json.load(open(path))
    scratch = build.make_scratch(prop_id + '-replay')
    try:
        native = Native(scratch)
        u = dict(harness=rec['harness'], defs=rec.get('defs', []))
        kind = rec.get('kind')
        rep = replay(native, u, rec.get('inputs') or {}, rec['label'] if kind == 'check' else None, None if kind == 'check' else kind)
        if rep.get('reproduced'):
            print('REPRODUCED %s' % rec['label'])
            print(json.dumps(rep)[:1000])
            return 1
        print('NOT-REPRODUCED %s' % rep.get('why'))
        return 0
    finally:
        shutil.rmtree(scratch, ignore_errors=True)
