"""Registry: which units (harness + configuration + input-space split) decide which property at which tier."""

R = lambda n: list(range(n))
Q, T = 'quick', 'thorough'

PROPS = {}

PROPS['C01'] = dict(
    claim='Bounded symbolic execution of the real GreensFunctionPart/TermList code: for every sparsity pattern, every '
          'real value of matrix elements, energies, weights and frequency inside the stated regimes the part value '
          'equals the documented Lehmann sum.',
    bounds={Q: 'operator blocks up to 2x2 (all 2^8 pattern pairs); regimes 0/1', T: 'blocks up to 3x2 / 2x3'},
    assumptions=['double read as exact real (rounding, overflow, NaN outside the claim)',
                 'inputs satisfy the representation invariants of C03/C09/C10 (compressed sparse storage, weights >= 0)',
                 'Lehmann representation (mathematical step, not machine checked)'],
    outside=['blocks larger than the bound', 'poles closer than 1e-8 but not equal (regime 2 of DESIGN 5/C01a)'],
    units=[
        dict(name='gfpart_2x1_r0', harness='h_gfpart', defs=['OUTER=2', 'INNER=1', 'REGIME=0'], split={'C': R(4)},
             witnesses=['computed', 'two_or_more_terms', 'no_term'], validate=[{'C': 3, 'CX': 3}]),
        dict(name='gfpart_1x2_r0', harness='h_gfpart', defs=['OUTER=1', 'INNER=2', 'REGIME=0'], split={'C': R(4)},
             witnesses=['computed', 'two_or_more_terms'], validate=[{'C': 3, 'CX': 3}, {'C': 1, 'CX': 2}]),
        dict(name='gfpart_2x2_r0', harness='h_gfpart', defs=['OUTER=2', 'INNER=2', 'REGIME=0'],
             split={'C': R(16), 'CX': R(16)}, witnesses=['computed', 'two_or_more_terms', 'no_term'],
             validate=[{'C': 15, 'CX': 15}, {'C': 6, 'CX': 11}]),
        dict(name='gfpart_2x2_r1', harness='h_gfpart', defs=['OUTER=2', 'INNER=2', 'REGIME=1'],
             split={'C': R(16), 'CX': R(16)}, witnesses=['computed', 'poles_merged'], validate=[{'C': 15, 'CX': 15}]),
        dict(name='termmerge_gf', harness='h_termmerge', defs=['KIND=0', 'NADD=3'], split={'p0': R(2), 'p1': R(2), 'p2': R(2)},
             witnesses=['done', 'merged_term_dropped', 'merged_term_kept', 'two_terms'], validate=[{'p0': 0, 'p1': 0, 'p2': 0, 'c0': 2, 'c1': -2, 'c2': 3, 'Pa': 1, 'Pb': '-1/2', 'zre': '1/3', 'zim': '1/2'}, {'p0': 0, 'p1': 1, 'p2': 0, 'c0': 2, 'c1': -2, 'c2': 3, 'Pa': 1, 'Pb': '-1/2', 'zre': '1/3', 'zim': '1/2'}]),
        dict(name='termmerge_gf_4', harness='h_termmerge', defs=['KIND=0', 'NADD=4'], split={'p0': R(2), 'p1': R(2), 'p2': R(2), 'p3': R(2)},
             witnesses=['done', 'merged_term_dropped', 'merged_term_kept', 'two_terms'], tiers=[T]),
    ])

PROPS['C14'] = dict(
    claim='Bounded symbolic execution of the real SusceptibilityPart/TermList code against the documented bosonic '
          'Lehmann sum including the zero-energy pole weight (static limit).',
    bounds={Q: 'operator blocks up to 2x2 (all pattern pairs), z=0 and z away from 0', T: 'blocks up to 3x2'},
    assumptions=['double read as exact real', 'inputs satisfy the invariants of C03/C09/C10',
                 'Lehmann representation of the imaginary-time integral (mathematical step)'],
    outside=['poles closer than 1e-8 but not equal', '0 < |z| < 1e-10'],
    units=[
        dict(name='suscpart_2x1_z0', harness='h_suscpart', defs=['OUTER=2', 'INNER=1', 'REGIME=0', 'ZCASE=0'],
             split={'A': R(4)}, witnesses=['computed', 'two_or_more_terms', 'zero_pole'], validate=[{'A': 3, 'B': 3}]),
        dict(name='suscpart_1x2_z1', harness='h_suscpart', defs=['OUTER=1', 'INNER=2', 'REGIME=0', 'ZCASE=1'],
             split={'A': R(4)}, witnesses=['computed', 'two_or_more_terms', 'zero_pole'],
             validate=[{'A': 3, 'B': 3}, {'A': 1, 'B': 2}]),
        dict(name='suscpart_2x2_r0_z0', harness='h_suscpart', defs=['OUTER=2', 'INNER=2', 'REGIME=0', 'ZCASE=0'],
             split={'A': R(16), 'B': R(16)}, witnesses=['computed', 'two_or_more_terms', 'zero_pole'],
             validate=[{'A': 15, 'B': 15}, {'A': 6, 'B': 11}]),
        dict(name='suscpart_2x2_r0_z1', harness='h_suscpart', defs=['OUTER=2', 'INNER=2', 'REGIME=0', 'ZCASE=1'],
             split={'A': R(16), 'B': R(16)}, witnesses=['computed', 'zero_pole'], validate=[{'A': 15, 'B': 15}]),
        dict(name='suscpart_2x2_r1_z0', harness='h_suscpart', defs=['OUTER=2', 'INNER=2', 'REGIME=1', 'ZCASE=0'],
             split={'A': R(16), 'B': R(16)}, witnesses=['computed', 'poles_merged'],
             validate=[{'A': 15, 'B': 15, 'wout0': 2, 'wout1': 3, 'win0': '1/2', 'win1': '1/4'}]),
        dict(name='termmerge_susc', harness='h_termmerge', defs=['KIND=3', 'NADD=3'], split={'p0': R(2), 'p1': R(2), 'p2': R(2)},
             witnesses=['done', 'merged_term_dropped', 'merged_term_kept', 'two_terms'], validate=[{'p0': 0, 'p1': 0, 'p2': 0, 'c0': 2, 'c1': -2, 'c2': 3, 'Pa': 1, 'Pb': '-1/2', 'zre': '1/3', 'zim': '1/2'}, {'p0': 0, 'p1': 1, 'p2': 0, 'c0': 2, 'c1': -2, 'c2': 3, 'Pa': 1, 'Pb': '-1/2', 'zre': '1/3', 'zim': '1/2'}]),
    ])

PROPS['C18'] = dict(
    claim='Symbolic execution of the real IndexClassification code (with the real std::map / boost::hash code) for every '
          'combination of orbital and spin counts inside the bound, both ordering modes, three label sets.',
    bounds={Q: '2 sites with 1..2 orbitals/spins (3 label sets), 3 sites 1..2', T: '3 sites with 1..3 orbitals and spins'},
    assumptions=['labels are taken from three fixed label sets (hash collisions of boost::hash on other labels are outside the claim)'],
    outside=['label sets other than the three fixed ones', 'more than 3 sites / 3 orbitals / 3 spins',
             'invariance of the physics under relabelling is decided in C04 units (index permutation)'],
    units=[dict(name='index_s2_o%d_l%d' % (o, l), harness='h_index',
                defs=['NSITES=2', 'MAXORB=2', 'MAXSPN=2', 'ORDER=%d' % o, 'LABELS=%d' % l],
                split={'orb0': [1, 2], 'spn0': [1, 2]}, witnesses=['prepared', 'done', 'heterogeneous_sites'],
                validate=[{'orb0': 2, 'spn0': 2, 'orb1': 1, 'spn1': 2}, {'orb0': 1, 'spn0': 1, 'orb1': 2, 'spn1': 2}])
           for o in (0, 1) for l in (0, 1, 2)] +
          [dict(name='indexinfo_order', harness='h_indexinfo', defs=[], witnesses=['done'])] +
          [dict(name='index_s3_o%d' % o, harness='h_index', defs=['NSITES=3', 'MAXORB=2', 'MAXSPN=2', 'ORDER=%d' % o, 'LABELS=0'],
                split={'orb0': [1, 2], 'spn0': [1, 2], 'orb1': [1, 2], 'spn1': [1, 2]},
                witnesses=['prepared', 'done', 'heterogeneous_sites']) for o in (0, 1)] +
          [dict(name='index_s3_333_o%d' % o, harness='h_index', defs=['NSITES=3', 'MAXORB=3', 'MAXSPN=3', 'ORDER=%d' % o, 'LABELS=1'],
                split={'orb0': [1, 2, 3], 'spn0': [1, 2, 3], 'orb1': [1, 2, 3], 'spn1': [1, 2, 3]}, tiers=[T],
                witnesses=['prepared', 'done', 'heterogeneous_sites']) for o in (0, 1)],
)

PROPS['C04'] = dict(
    claim='The real chain Lattice/LatticePresets -> IndexClassification -> IndexHamiltonian::prepare -> Operator::actRight is '
          'executed symbolically with ALL amplitudes symbolic; every matrix element of the resulting Hamiltonian is compared '
          'with the operator written in the documentation of each preset (independent Jordan-Wigner reference), plus '
          'Hermiticity and [H,S+]=0 for the rotationally invariant forms.',
    bounds={Q: '1-2 sites, up to 4 modes; presets CoulombS/CoulombP(4,5 args)/Level/Magnetization/Hopping(4,7,8 args)/SzSz/SS '
               '(same-site and two-site); user terms with 2 and 4 operators, all 2^N creation/annihilation patterns, 16 mode assignments',
            T: 'additionally user terms with 6 operators'},
    assumptions=['every amplitude is exactly 0 or 1e-3 <= |a| <= 1e3', 'double read as exact real',
                 'index order taken from the real IndexClassification (C18)'],
    outside=['more than 4 modes (t2g site, heterogeneous s+p lattices)', 'complex amplitudes (complex build)'],
    units=[dict(name='presets_case%d' % c, harness='h_presets', defs=['CASE=%d' % c], max_loop=50000,
                witnesses=['prepared', 'done'] + (['commutator_checked'] if c in (3, 5) else []),
                validate=[{}]) for c in (1, 2, 3, 4, 5, 6)] +
          [dict(name='presets_case%d_spinmajor' % c, harness='h_presets', defs=['CASE=%d' % c, 'ORDER_SPINS=true'], max_loop=50000,
                witnesses=['prepared', 'done']) for c in (2, 4)] +
          [dict(name='userterm_n%d' % n, harness='h_presets', defs=['CASE=7', 'NOPS=%d' % n], split={'sel': R(16)},
                witnesses=['prepared', 'done'], validate=[{'sel': 2, 'pat': 1}, {'sel': 7, 'pat': 2}]) for n in (2, 4)] +
          [dict(name='userterm_n6', harness='h_presets', defs=['CASE=7', 'NOPS=6'], split={'sel': R(16)}, tiers=[T],
                witnesses=['prepared', 'done'])],
)

PROPS['C05'] = dict(
    claim='The real Operator algebra (normalize_and_insert, +=, -=, *=, ==, commutes, actRight) and the N / Sz shortcuts are '
          'executed symbolically: operator strings are symbolic (every creation/annihilation pattern and mode assignment inside '
          'the bound is a solver-enumerated fork), coefficients are symbolic reals; all results are compared with '
          'Jordan-Wigner reference matrices.',
    bounds={Q: '3 modes: monomials of length <= 3 (actRight), products of monomials with 2+2 factors, associativity 1+1+1; '
               '6 monomial pair sets with symbolic coefficients; N/Sz over 4 modes with all up/down index subsets',
            T: 'products 3+2 and 2+3 factors, associativity 2+1+1, actRight length 4 over 4 modes'},
    assumptions=['coefficients are exactly 0 or at least 1e-9 in modulus (outside the erase band of 100*epsilon)',
                 'double read as exact real'],
    outside=['longer monomials / more modes than the bound', 'coefficients inside the erase band'],
    units=[dict(name='actright_len%d' % l, harness='h_operator', defs=['MODE=1', 'LEN=%d' % l, 'MODES=3'],
                split={'f0': R(6)} if l > 1 else None, witnesses=['done', 'annihilated', 'negative_sign'] if l > 1 else ['done', 'annihilated'],
                validate=[{'f0': 4, 'f1': 1, 'f2': 2}]) for l in (1, 2, 3)] +
          [dict(name='product_2x2', harness='h_operator', defs=['MODE=2', 'LA=2', 'LB=2', 'MODES=3'], split={'a0': R(6), 'a1': R(6)},
                witnesses=['done', 'nonzero_product', 'vanishing_product', 'contraction_produced_two_monomials'],
                validate=[{'a0': 3, 'a1': 1, 'b0': 0, 'b1': 4}]),
           dict(name='product_assoc_111', harness='h_operator', defs=['MODE=2', 'LA=1', 'LB=1', 'LC=1', 'MODES=3'], split={'a0': R(6)},
                witnesses=['done', 'nonzero_product']),
           dict(name='product_3x2', harness='h_operator', defs=['MODE=2', 'LA=3', 'LB=2', 'MODES=3'], tiers=[T],
                split={'a0': R(6), 'a1': R(6), 'a2': R(6)}, witnesses=['done', 'nonzero_product']),
           dict(name='product_assoc_211', harness='h_operator', defs=['MODE=2', 'LA=2', 'LB=1', 'LC=1', 'MODES=3'], tiers=[T],
                split={'a0': R(6), 'a1': R(6)}, witnesses=['done', 'nonzero_product']),
           dict(name='actright_len4_m4', harness='h_operator', defs=['MODE=1', 'LEN=4', 'MODES=4'], tiers=[T],
                split={'f0': R(8), 'f1': R(8)}, witnesses=['done', 'annihilated', 'negative_sign'])] +
          [dict(name='coeffs_set%d' % p, harness='h_operator', defs=['MODE=3', 'PAIRSET=%d' % p, 'MODES=3'], max_loop=50000,
                witnesses=['done', 'different_pair'], validate=[{}]) for p in range(6)] +
          [dict(name='n_sz_m4', harness='h_operator', defs=['MODE=4', 'MODES=4'], split={'upmask': R(16)},
                witnesses=['done', 'sz_constructed', 'partial_coverage', 'sz_onelist_constructed'],
                validate=[{'upmask': 5, 'dnmask': 10}, {'upmask': 1, 'dnmask': 4}])],
)

PROPS['C20'] = dict(
    claim='The real Lattice / TermStorage / LatticePresets code is executed symbolically (C++ exceptions included): labels are '
          'forked over {known, known, unknown}, orbital and spin arguments are symbolic over the whole unsigned short range, '
          'amplitudes are symbolic reals including exactly 0, site sizes range over [1,2]^4.',
    bounds={Q: '2 sites with 1..2 orbitals and spins; one addTerm of order 2 or 4 (then a copy); all nine LatticePresets::add* '
               'entry points with symbolic arguments; Spinflip/PairHopping factories', T: 'same'},
    assumptions=['double read as exact real'],
    outside=['histories of more than one rejected/accepted term', 'sites with more than 2 orbitals or spins'],
    units=[dict(name='addterm', harness='h_lattice', defs=['SCEN=1'], split={'orbA': [1, 2], 'spnA': [1, 2], 'orbB': [1, 2], 'spnB': [1, 2]},
                witnesses=['rejected', 'zero_ignored', 'stored', 'done'], validate=[{'orbA': 2, 'spnA': 2, 'orbB': 1, 'spnB': 2, 'l0': 0, 'l1': 1, 'o0': 1, 's0': 1}]),
           dict(name='getsite', harness='h_lattice', defs=['SCEN=2'], witnesses=['lookups_done', 'done'], validate=[{}]),
           dict(name='presets_args', harness='h_lattice', defs=['SCEN=3'], split={'orbA': [1, 2], 'spnA': [1, 2], 'orbB': [1, 2], 'spnB': [1, 2]},
                witnesses=['preset_rejected', 'preset_accepted', 'done'],
                validate=[{'orbA': 2, 'spnA': 2, 'orbB': 2, 'spnB': 2, 'preset': 5, 'l1': 0, 'l2': 1}]),
           dict(name='term_factories', harness='h_lattice', defs=['SCEN=4'], witnesses=['done'], validate=[{'to1': 1, 'ts1': 1}])],
)

_symm_w = ['done']
PROPS['C07'] = dict(
    claim='The real chain Lattice -> IndexHamiltonian -> Symmetrizer (checkSymmetry, Operator::commutes) -> StatesClassification '
          '-> FieldOperator::mapsTo / *Operator::prepare is executed symbolically for a term family with SYMBOLIC amplitudes '
          '(level, hopping, spin-changing hopping, on-site U, pair creation; every zero pattern is a separate job): partition, '
          'addressing, block-diagonality of H (for all amplitude values) and the single-target property with the resulting bimaps.',
    bounds={Q: 'layouts: 1 spin-1/2 site, 2 spin-1/2 sites, spinless+spin-1/2, 2 spinless, 3-spin site (2-4 modes); default '
               'analysis, ignored symmetries, user integrals of motion {N}, {N_0,N_rest}, {(N-1)^2}',
            T: 'additionally layout (2 orbitals x 1 spin)+(1x2), user integrals {site charge}, {n_0 n_1}, {N, N^2} on all layouts'},
    assumptions=['every amplitude is exactly 0 or 1e-3 <= |a| <= 1e3', 'double read as exact real',
                 'quantum numbers are compared through boost::hash (real Boost code, concrete values): collisions among the '
                 'values that occur are covered, others are outside the claim'],
    outside=['more than 4 modes', 'HamiltonianPart::prepare (decided in the C03 units)'],
    units=[dict(name='symm_l%d_default' % l, harness='h_symm', defs=['LAYOUT=%d' % l, 'ANALYSIS=0'], split={'zmask': R(32)},
                witnesses=['done', 'symmetry_accepted'] + (['no_symmetry_accepted'] if l in (1, 2, 3) else []), max_loop=20000,
                validate=[{'zmask': 24}]) for l in (0, 1, 2, 3, 4)] +
          [dict(name='symm_l%d_ignored' % l, harness='h_symm', defs=['LAYOUT=%d' % l, 'ANALYSIS=1'], split={'zmask': R(32)},
                witnesses=['done', 'no_symmetry_accepted'], max_loop=20000) for l in (1, 2)] +
          [dict(name='symm_l1_iom%d' % i, harness='h_symm', defs=['LAYOUT=1', 'ANALYSIS=2', 'IOMSET=%d' % i], split={'zmask': R(32)},
                witnesses=['done', 'symmetry_accepted'] if i != 3 else ['done', 'no_symmetry_accepted'], max_loop=20000,
                validate=[{'zmask': 24}]) for i in (0, 1, 3)] +
          [dict(name='symm_l1_iom%d' % i, harness='h_symm', defs=['LAYOUT=1', 'ANALYSIS=2', 'IOMSET=%d' % i], split={'zmask': R(32)},
                witnesses=['done'], max_loop=20000) for i in (6, 7)] +
          [dict(name='symm_l5_default', harness='h_symm', defs=['LAYOUT=5', 'ANALYSIS=0'], split={'zmask': R(32)}, tiers=[T],
                witnesses=['done'], max_loop=20000)] +
          [dict(name='symm_l%d_iom%d' % (l, i), harness='h_symm', defs=['LAYOUT=%d' % l, 'ANALYSIS=2', 'IOMSET=%d' % i],
                split={'zmask': R(32)}, tiers=[T], witnesses=['done'], max_loop=20000)
           for l in (1, 2, 5) for i in (0, 1, 2, 3, 4, 5, 6, 7) if not (l == 1 and i in (0, 1, 3, 6, 7))],
)

_EIG = {'SelfAdjointEigenSolver.*7computeI': 'stub_eig_compute'}
PROPS['C03'] = dict(
    claim='HamiltonianPart::prepare is executed symbolically on the real pipeline (symbolic amplitudes) against an independent '
          'Jordan-Wigner reference; HamiltonianPart::compute is decided for the 1x1 path and, for n x n blocks, against the CONTRACT '
          'of Eigen::SelfAdjointEigenSolver (the iterative floating-point solver itself is not encodable and is overridden by a stub '
          'returning arbitrary symbolic eigen-data); Hamiltonian::computeGroundEnergy / getEigenValues / getEigenValue are decided for '
          'arbitrary symbolic eigenvalues.',
    bounds={Q: 'Hubbard atom, spinless dimer (blocks 1,2,1 and one block of 4), Hubbard dimer (9 blocks) ; all zero patterns of 3 amplitudes',
            T: 'same'},
    assumptions=['Eigen::SelfAdjointEigenSolver returns (E,U) with H U = U E, U^T U = 1 (ASSUMED, not checked: not encodable)',
                 'every amplitude is exactly 0 or 1e-3 <= |a| <= 1e3', 'double read as exact real'],
    outside=['correctness and orthonormality of the eigen-solver output (the core numerical step of C03)', 'complex build'],
    units=[dict(name='hpart_l%d' % l, harness='h_hpart', defs=['LAYOUT=%d' % l], split={'zmask': R(8)}, overrides=_EIG,
                witnesses=['done', '1x1_block'] + (['nxn_block'] if l else []), max_loop=20000, validate=[{'zmask': 0}])
           for l in (0, 1, 2)] +
          [dict(name='hpart_l1_oneblock', harness='h_hpart', defs=['LAYOUT=1', 'IGNORE_SYMM=true'], split={'zmask': R(8)}, overrides=_EIG,
                witnesses=['done', 'nxn_block'], max_loop=20000)] +
          [dict(name='hamiltonian_m%d' % m, harness='h_hamiltonian', defs=['MODEL=%d' % m], witnesses=['done'], max_loop=20000,
                validate=[{}]) for m in (0, 1, 2, 3)],
)

PROPS['C09'] = dict(
    claim='DensityMatrix / DensityMatrixPart are executed symbolically on arbitrary symbolic eigenvalues (and eigenvector matrices of '
          '2x2 blocks) of a real block structure; exp is an uninterpreted positive function, so the claims hold for every function with '
          'E(x)>0, E(0)=1 - in particular: every exponent is <= 0 with one equal to 0 (no overflow, Z >= 1), weights are >= 0 and sum '
          'to one, satisfy the Gibbs ratio law, and the averages are the traces of rho with the operators.',
    bounds={Q: 'Hubbard atom (4 blocks of 1), spinless dimer (blocks 1,2,1 with symbolic 2x2 eigenvectors; one block of 4), every choice '
               'of the ground state', T: 'additionally Hubbard dimer (16 states, 9 blocks)'},
    assumptions=['double read as exact real; exp read as an uninterpreted function with E(x) > 0 and E(0) = 1',
                 'eigen-data are arbitrary reals of the right shape (no orthonormality needed for these identities)'],
    outside=['floating-point range effects beyond the sign of the exponents', 'EnsembleAverage of c+_i c_j (decided in the C10/C14 units)'],
    units=[dict(name='dm_m0', harness='h_dm', defs=['MODEL=0'], split={'gs': R(4)}, resolve_selects=True, max_loop=20000,
                witnesses=['computed', 'done', 'block_discarded'], validate=[{'gs': 3, 'E0_0': 2, 'E1_0': 1, 'E2_0': 3, 'E3_0': '1/2', 'eps': '1/10'}]),
           dict(name='dm_m1_vec', harness='h_dm', defs=['MODEL=1', 'VEC=1'], split={'gs': R(4)}, resolve_selects=True, max_loop=20000,
                witnesses=['computed', 'done', 'block_discarded'], validate=[{'gs': 0, 'E0_0': '-1', 'E1_0': 1, 'E1_1': 3, 'E2_0': '1/2', 'eps': '1/10'}]),
           dict(name='dm_m2', harness='h_dm', defs=['MODEL=2'], split={'gs': R(4)}, resolve_selects=True, max_loop=20000,
                witnesses=['computed', 'done']),
           dict(name='dm_m3', harness='h_dm', defs=['MODEL=3', 'NOTRUNC'], split={'gs': R(16)}, resolve_selects=True, max_loop=20000, tiers=[T],
                witnesses=['computed', 'done'])],
)

PROPS['C10'] = dict(
    claim='FieldOperatorPart::compute (real Eigen dense product / sparseView / prune from the IR), the operator prepare() bimaps, '
          'FieldOperatorContainer::computeAll and EnsembleAverage are executed with SYMBOLIC eigenvector matrices: every stored block equals '
          'U_to^T O U_from within the documented tolerance, row/column-major copies agree, the sparse representation invariant holds, '
          'container-produced annihilation parts are the adjoints of the creation parts.  The same for the complex-element build of the library '
          '(units fopc_*: symbolic complex eigenvectors, U_to^+ O U_from, Hermitian conjugates, both storage copies).',
    bounds={Q: 'Hubbard atom (1x1 blocks), spinless dimer (blocks 1,2,1 with a symbolic 2x2 eigenvector matrix); c+_i, c_i, c+_i c_j for all i,j; '
               'one-by-one and container paths', T: 'additionally one 4x4 block (symmetries ignored), time-capped'},
    assumptions=['double read as exact real', 'eigenvector matrices are arbitrary real matrices (orthonormality is not needed for the rotation '
                 'identity; the CAR then follow from C05 and U^T U = 1, mathematical step)'],
    outside=['{c_i,c+_j} = delta_ij assembled over blocks as a solver query (needs U^T U = 1 as polynomial constraints; not attempted)',
             'blocks larger than 2x2 in the quick tier', 'complex build: only c+_i / c_i (one by one and container) on the spinless dimer and the Hubbard atom are covered; '
             'quadratic operators and the ensemble average in the complex build are not'],
    units=[dict(name='fop_m0_single', harness='h_fop', defs=['MODEL=0', 'PATH=0'], split={'op': R(6)}, max_loop=20000,
                witnesses=['done', 'creation_parts', 'ensemble_average'], validate=[{'op': 1}, {'op': 3}]),
           dict(name='fop_m1_single', harness='h_fop', defs=['MODEL=1', 'PATH=0'], split={'op': R(6)}, max_loop=20000,
                witnesses=['done', 'creation_parts', 'ensemble_average'], validate=[{'op': 0}, {'op': 4}]),
           dict(name='fop_m0_container', harness='h_fop', defs=['MODEL=0', 'PATH=1'], max_loop=20000, witnesses=['done', 'annihilation_parts'],
                validate=[{}]),
           dict(name='fop_m1_container', harness='h_fop', defs=['MODEL=1', 'PATH=1'], max_loop=20000, witnesses=['done', 'annihilation_parts'],
                validate=[{}]),
           dict(name='fop_m2_oneblock_identity', harness='h_fop', defs=['MODEL=2', 'PATH=0', 'VECS=0'], split={'op': R(6)}, max_loop=20000,
                witnesses=['done', 'creation_parts'], validate=[{'op': 1}]),
           dict(name='fop_m2_oneblock_identity_container', harness='h_fop', defs=['MODEL=2', 'PATH=1', 'VECS=0'], max_loop=20000,
                witnesses=['done', 'annihilation_parts']),
           dict(name='fop_m2_single', harness='h_fop', defs=['MODEL=2', 'PATH=0'], split={'op': R(6)}, max_loop=20000, tiers=[T],
                max_paths=400, witnesses=['done']),
           # complex-element build of the library (-DPOMEROL_COMPLEX_MATRIX_ELEMENTS): symbolic COMPLEX eigenvector matrices
           dict(name='fopc_m1_single', harness='h_fopc', complex=True, defs=['MODEL=1', 'PATH=0'], split={'op': R(2)}, max_loop=20000,
                witnesses=['done', 'annihilation_parts'], validate=[{'op': 0, 'U1_0_0': '3/5', 'U1_0_1': '1/5', 'U1_1_0': '-1/2', 'U1_1_1': '2/5', 'U1_2_0': '1/3', 'U1_2_1': '-3/4', 'U1_3_0': '2/7', 'U1_3_1': '1/9'}]),
           dict(name='fopc_m1_container', harness='h_fopc', complex=True, defs=['MODEL=1', 'PATH=1'], split={'op': R(2)}, max_loop=20000,
                witnesses=['done', 'annihilation_parts'], validate=[{'op': 0, 'U1_0_0': '3/5', 'U1_0_1': '1/5', 'U1_1_0': '-1/2', 'U1_1_1': '2/5', 'U1_2_0': '1/3', 'U1_2_1': '-3/4', 'U1_3_0': '2/7', 'U1_3_1': '1/9'}]),
           dict(name='fopc_m0_container', harness='h_fopc', complex=True, defs=['MODEL=0', 'PATH=1'], split={'op': R(2)}, max_loop=20000,
                witnesses=['done', 'annihilation_parts'])],
)

PROPS['C11'] = dict(
    claim='Per-term identities of the real Term::operator()(z) / operator()(tau,beta) code (both overflow-avoiding branches) with exp as an '
          'uninterpreted positive function plus two listed functional-equation instances, and part-level conjugation symmetry / sign of '
          'Im G_ii on the real GreensFunctionPart code for all sparsity patterns up to 2x2.  Floating-point range of the imaginary-time formulas: for every '
          'beta > 0, tau in [0,beta] and pole, no argument handed to exp() by the term code exceeds 709 (no overflow however low the temperature).',
    bounds={Q: 'one term with symbolic complex residue, pole, z, tau in [0,beta]; parts up to 2x2 (all pattern pairs)', T: 'same'},
    assumptions=['double read as exact real (except the exp-argument range obligation, which is about the double range)', 'E(x) > 0, E(0) = 1, E(bP)E(-bP) = 1, E((b-t)P)E(-bP) = E(-tP) (lemma instances)',
                 'a part / Green function is the sum of its terms (composition, mathematical step)'],
    outside=['the Matsubara-sum form of the tau/frequency duality (replaced by the per-term closed-form pair)',
             'G_ii(beta-) = -<n_i> (needs the C09 weight relation across objects; mathematical step)', 'z G(z) -> delta_ij (follows from C01 + CAR)'],
    units=[dict(name='gfterm', harness='h_gfterm', defs=[], witnesses=['done', 'positive_pole_branch', 'non_positive_pole_branch', 'bosonic_tau', 'positive_residue'],
                validate=[{'Rre': 2, 'Rim': 1, 'P': '1/2', 'zre': '1/3', 'zim': 2, 'beta': 3, 'tau': 1}, {'Rre': 2, 'Rim': 1, 'P': '-1/2', 'zre': '1/3', 'zim': 2, 'beta': 3, 'tau': 1}]),
           dict(name='gfpart_conj_2x2', harness='h_gfpart', defs=['OUTER=2', 'INNER=2', 'REGIME=3'], split={'C': R(16), 'CX': R(16)},
                witnesses=['computed', 'adjoint_pair_checked'], validate=[{'C': 11, 'CX': 13}]),
           dict(name='gfpart_conj_1x2', harness='h_gfpart', defs=['OUTER=1', 'INNER=2', 'REGIME=3'], split={'C': R(4)},
                witnesses=['computed', 'adjoint_pair_checked']),
           dict(name='gfpart_diag_2x1', harness='h_gfpart', defs=['OUTER=2', 'INNER=1', 'REGIME=4'], split={'C': R(4)},
                witnesses=['computed', 'diagonal_checked'], validate=[{'C': 3}]),
           dict(name='gfpart_diag_1x2', harness='h_gfpart', defs=['OUTER=1', 'INNER=2', 'REGIME=4'], split={'C': R(4)},
                witnesses=['computed', 'diagonal_checked']),
           dict(name='gfpart_diag_2x2', harness='h_gfpart', defs=['OUTER=2', 'INNER=2', 'REGIME=4'], split={'C': R(16)}, tiers=[T], job_timeout=1200,
                witnesses=['computed', 'diagonal_checked'], validate=[{'C': 15}])],
)

_IMG3 = [-1, 0, 1, 2]
_IMG2 = [-1, 0, 1]
PROPS['C08'] = dict(
    claim='The numerical agreement of two complete runs cannot be encoded (it passes twice through the eigen-solver).  Decided instead are '
          'the structural conditions under which the observables do not depend on the partition, for ARBITRARY admissible block bimaps '
          '(not only those of the default partition): the four world-stripe selectors select exactly the block tuples on which the operator '
          'product can be non-zero; splitting a block pair leaves the sum of Green\'s-function part values unchanged, and refining one block into two leaves the '
          'sum of susceptibility part values unchanged (zero-energy pole weight included, z = 0 and z != 0); (C07 units:) every accepted partition '
          'has the single-target property.',
    bounds={Q: 'G / susceptibility / ensemble-average selectors over 3 blocks (all partial injections incl. self-maps and non-monotone maps), '
               '2PGF selector over 2 blocks (all 7^4 bimap combinations), splitting of a 2x2 block pair',
            T: '2PGF selector over 3 blocks restricted to bijective CX4'},
    assumptions=['invariance of a trace under regrouping of an orthonormal eigenbasis (mathematical step)',
                 'Eigen::SelfAdjointEigenSolver contract (C03)'],
    outside=['numerical agreement of complete runs under different partitions'],
    units=[dict(name='select_g_b3', harness='h_select', defs=['SEL=0', 'NBLOCKS=3', 'SYMRET=0'], split={'c0': _IMG3, 'c1': _IMG3},
                witnesses=['done', 'self_map_stripe', 'two_stripes', 'vanishing']),
           dict(name='select_chi_b3', harness='h_select', defs=['SEL=1', 'NBLOCKS=3', 'SYMRET=0'], split={'a0': _IMG3, 'a1': _IMG3},
                witnesses=['done', 'self_map_stripe', 'two_stripes', 'vanishing']),
           dict(name='select_avg_b3', harness='h_select', defs=['SEL=2', 'NBLOCKS=3', 'SYMRET=0'], witnesses=['done', 'diagonal_block', 'offdiagonal_block_ignored']),
           dict(name='select_2pgf_b2', harness='h_select', defs=['SEL=3', 'NBLOCKS=2', 'SYMRET=0'], split={'c10': _IMG2, 'c11': _IMG2, 'c20': _IMG2},
                witnesses=['done', 'two_cycles']),
           dict(name='gfpart_split', harness='h_gfpart', defs=['OUTER=2', 'INNER=2', 'REGIME=6'], split={'C': [0, 1, 8, 9], 'CX': [0, 1, 8, 9]},
                witnesses=['computed', 'split_compared'], validate=[{'C': 9, 'CX': 9}]),
           dict(name='suscpart_split_z', harness='h_suscpart', defs=['OUTER=2', 'INNER=2', 'REGIME=6', 'ZCASE=0'], split={'A': R(16), 'B': R(16)},
                witnesses=['computed', 'split_compared', 'degenerate_pair_across_blocks'], validate=[{'A': 6, 'B': 6}, {'A': 15, 'B': 15, 'Ein1': '1/3'}]),
           dict(name='suscpart_split_z0', harness='h_suscpart', defs=['OUTER=2', 'INNER=2', 'REGIME=6', 'ZCASE=1'], split={'A': R(16), 'B': R(16)},
                witnesses=['computed', 'split_compared', 'degenerate_pair_across_blocks'], validate=[{'A': 6, 'B': 6}])],
)

PROPS['C19'] = dict(
    claim='Truncation logic on the real code: a block is discarded iff none of its weights exceeds eps (symbolic weights and eps, incl. eps = 0); '
          'the four selectors skip a world stripe only if ALL its blocks are discarded (symbolic retained flags, arbitrary bimaps); a discarded '
          '1x1 Green-function stripe contributes at most 2 eps |C CX| / |Im z|.',
    bounds={Q: 'selectors: 3 blocks (G, susceptibility, average), 2 blocks (2PGF, all bimaps); truncate on the density matrices of C09 units; '
               '1x1 part bound', T: 'same'},
    assumptions=['sum over parts of |C CX| <= dimension (mathematical step giving 2 eps dim/|Im z| for G)', 'double read as exact real'],
    outside=['bounds for the 2PGF / susceptibility deviation (only the skipping rule is decided)'],
    units=[dict(name='select_g_b3_ret', harness='h_select', defs=['SEL=0', 'NBLOCKS=3', 'SYMRET=1'], split={'c0': _IMG3, 'c1': _IMG3},
                witnesses=['done', 'stripe_skipped_all_discarded', 'stripe_kept_with_one_discarded_block']),
           dict(name='select_chi_b3_ret', harness='h_select', defs=['SEL=1', 'NBLOCKS=3', 'SYMRET=1'], split={'a0': _IMG3, 'a1': _IMG3},
                witnesses=['done', 'stripe_skipped_all_discarded', 'stripe_kept_with_one_discarded_block']),
           dict(name='select_avg_b3_ret', harness='h_select', defs=['SEL=2', 'NBLOCKS=3', 'SYMRET=1'], witnesses=['done', 'diagonal_block_discarded']),
           dict(name='select_2pgf_b2_ret', harness='h_select', defs=['SEL=3', 'NBLOCKS=2', 'SYMRET=1'], split={'c10': _IMG2, 'c11': _IMG2, 'c20': _IMG2},
                witnesses=['done', 'cycle_skipped_all_discarded', 'cycle_kept_only_by_last_block']),
           dict(name='truncate_dm_m1', harness='h_dm', defs=['MODEL=1', 'VEC=0'], split={'gs': R(4)}, resolve_selects=True, max_loop=20000,
                witnesses=['done', 'block_discarded']),
           dict(name='gfpart_discarded_bound', harness='h_gfpart', defs=['OUTER=1', 'INNER=1', 'REGIME=5'], witnesses=['computed', 'bound_checked'],
                validate=[{'C': 1, 'CX': 1, 'eps': '1/100', 'win0': '1/200', 'wout0': '1/300'}])],
)

_P2 = lambda n: R(1 << n)
PROPS['C02'] = dict(
    claim='TwoParticleGFPart on the real code, decomposed into solver-decided obligations: (B) after compute() the stored term lists are '
          'exactly the documented multi-terms (C2, C4, R12/N12, R23/N23, poles, tolerance rule) of the stored operator quadruples, for '
          'symbolic matrix elements, energies, weights and beta; (D) each kind of term evaluates to its documented form at Matsubara '
          'numbers including the resonant branches, with the frequency triple (w1,w2,-w3) permuted by each of the six permutations; '
          'chaseIndices finds exactly the common inner indices for all sparsity patterns; (C02c, in the C08/C19 units) TwoParticleGF::prepare '
          'builds exactly one part per permutation and block 4-cycle; (T) the frequency table returned by TwoParticleGF::compute(clear, freqs) has one entry per triple and '
          'equals on-demand evaluation, for all 16 components of the Hubbard atom incl. vanishing ones, terms kept or discarded; (M) reduction of like terms obeys the documented rule.',
    bounds={Q: 'blocks (1,1,1,1) fully symbolic (all 6 permutations); shapes (2,2,1,1), (1,2,2,1), (1,1,2,2), (2,1,1,2) with all sparsity '
               'patterns and concrete generic numbers; one term of each kind at 5 Matsubara triples x 6 permutations', T: 'same'},
    assumptions=['double read as exact real', 'the multi-term of the header documentation IS the triple Fourier integral (Hafermann et al. 2009; '
                 'uses w_j = w_i exp(-beta(E_j-E_i)) and exp(i beta w) = -1: mathematical step, not derivable without transcendental reasoning)',
                 'a part value is the sum of its terms (composition of B and D)'],
    outside=['merging ACROSS stored quadruples inside TwoParticleGFPart::compute when poles agree within 1e-8 (the reduction rule itself - sum of coefficients, mean of the poles, negligibility - is decided at term-list level in the termmerge units, for equal poles and for poles within 1e-9 of each other)', 'the MPI reduction of the frequency table on several ranks (C06; the single-rank table path is unit 2pgftable)', 'complex build'],
    units=[dict(name='2pgfpart_1111', harness='h_2pgfpart', defs=[], split={'perm': R(6), 'O1': [0, 1], 'O2': [0, 1]},
                witnesses=['computed', 'done', 'no_quadruple'], validate=[{'perm': 3, 'O1': 1, 'O2': 1, 'O3': 1, 'CX4': 1}]),
           dict(name='2pgfpart_2211_patterns', harness='h_2pgfpart', defs=['DIM1=2', 'DIM2=2'], concrete=True,
                split={'O1': _P2(4), 'O2': _P2(2), 'O3': [1], 'CX4': _P2(2), 'perm': [0, 5]}, witnesses=['computed', 'done', 'two_quadruples']),
           dict(name='2pgfpart_1221_patterns', harness='h_2pgfpart', defs=['DIM2=2', 'DIM3=2'], concrete=True,
                split={'O1': _P2(2), 'O2': _P2(4), 'O3': _P2(2), 'CX4': [1], 'perm': [1]}, witnesses=['computed', 'done', 'two_quadruples']),
           dict(name='2pgfpart_1122_patterns', harness='h_2pgfpart', defs=['DIM3=2', 'DIM4=2'], concrete=True,
                split={'O1': [1], 'O2': _P2(2), 'O3': _P2(4), 'CX4': _P2(2), 'perm': [2]}, witnesses=['computed', 'done', 'two_quadruples']),
           dict(name='2pgfpart_2112_patterns', harness='h_2pgfpart', defs=['DIM1=2', 'DIM4=2'], concrete=True,
                split={'O1': _P2(2), 'O2': [1], 'O3': _P2(2), 'CX4': _P2(4), 'perm': [3]}, witnesses=['computed', 'done', 'two_quadruples']),
           dict(name='2pgfpart_2222_patterns', harness='h_2pgfpart', defs=['DIM1=2', 'DIM2=2', 'DIM3=2', 'DIM4=2'], concrete=True, tiers=[T],
                split={'O1': _P2(4), 'O2': _P2(4), 'O3': [6, 9, 15, 7, 11], 'CX4': [6, 9, 15, 13, 14], 'perm': [4]}, witnesses=['computed', 'done', 'two_quadruples'])] +
          [dict(name='2pgfterm_%d' % t, harness='h_2pgfterm', defs=['TERM=%d' % t], split={'perm': R(6), 'freq': R(5)},
                witnesses=['done'] + (['resonant_branch', 'non_resonant_branch'] if t >= 2 else []),
                validate=[{'perm': 2, 'freq': 1, 'P1': '1/3', 'P2': '-1/3', 'P3': '1/5'}]) for t in range(4)] +
          [
           dict(name='2pgftable', harness='h_2pgftable', defs=[], split={'quad': R(16), 'clear': R(2), 'beta': [2]}, max_loop=200000, job_timeout=300,
                witnesses=['done', 'vanishing_component', 'non_vanishing_component', 'tolerances_checked'],
                validate=[{'quad': 5, 'clear': 0, 'beta': 2, 'w0_0': '1/10', 'w1_0': '2/5', 'w2_0': '3/10', 'w3_0': '1/5'},
                          {'quad': 3, 'clear': 1, 'beta': 2, 'w0_0': '1/10', 'w1_0': '2/5', 'w2_0': '3/10', 'w3_0': '1/5'}]),
           dict(name='2pgftable_symbeta', harness='h_2pgftable', defs=[], split={'quad': [0, 3, 5, 6, 9, 10, 15], 'clear': R(2)}, max_loop=200000, tiers=[T], job_timeout=1500,
                witnesses=['done', 'vanishing_component', 'non_vanishing_component']),
           dict(name='2pgftable_symlevels', harness='h_2pgftable', defs=['SYME=1'], split={'quad': [3, 5, 10], 'clear': R(2)}, max_loop=200000, tiers=[T], job_timeout=1500,
                witnesses=['done', 'vanishing_component', 'non_vanishing_component']),
           dict(name='termmerge_nonres', harness='h_termmerge', defs=['KIND=1', 'NADD=3'], split={'p0': R(2), 'p1': R(2), 'p2': R(2)},
                witnesses=['done', 'merged_term_dropped', 'merged_term_kept', 'two_terms'], validate=[{'p0': 0, 'p1': 0, 'p2': 0, 'c0': 2, 'c1': -2, 'c2': 3, 'Pa': 1, 'Pb': '-1/2', 'zre': '1/3', 'zim': '1/2'}, {'p0': 0, 'p1': 1, 'p2': 0, 'c0': 2, 'c1': -2, 'c2': 3, 'Pa': 1, 'Pb': '-1/2', 'zre': '1/3', 'zim': '1/2'}]),
           dict(name='termmerge_res', harness='h_termmerge', defs=['KIND=2', 'NADD=3'], split={'p0': R(2), 'p1': R(2), 'p2': R(2)},
                witnesses=['done', 'merged_term_dropped', 'merged_term_kept', 'two_terms'], validate=[{'p0': 0, 'p1': 0, 'p2': 0, 'c0': 2, 'c1': -2, 'c2': 3, 'd0': 1, 'd1': '1/2', 'd2': -3, 'Pa': 1, 'Pb': '-1/2', 'zre': '1/3', 'zim': '1/2'}]),
           dict(name='termmerge_nonres_near', harness='h_termmerge', defs=['KIND=1', 'NADD=3', 'NEAR=1'], split={'p0': R(2), 'p1': R(2), 'p2': R(2)},
                witnesses=['done', 'merged_term_dropped', 'merged_term_kept', 'two_terms']),
           dict(name='termmerge_res_near_mixed', harness='h_termmerge', defs=['KIND=2', 'NADD=3', 'NEAR=1'], tiers=[T], job_timeout=1800, query_timeout_ms=600000,
                split={'p0': R(2), 'p1': R(2), 'p2': R(2)}, witnesses=['done', 'merged_term_dropped', 'merged_term_kept', 'two_terms']),
           dict(name='termmerge_res_near', harness='h_termmerge', defs=['KIND=2', 'NADD=3', 'NEAR=1'], split={'p0': [0], 'p1': [0], 'p2': [0]},
                witnesses=['done', 'merged_term_dropped', 'merged_term_kept'],
                validate=[{'p0': 0, 'p1': 0, 'p2': 0, 'c0': 2, 'c1': -2, 'c2': 3, 'd0': 1, 'd1': '1/2', 'd2': -3, 'Pa': 1, 'Pb': '-1/2', 'zre': '1/3', 'zim': '1/2',
                           'e0': '1/2000000000', 'e1': '-1/3000000000', 'e2': '1/4000000000'}]),
           dict(name='termmerge_res_4', harness='h_termmerge', defs=['KIND=2', 'NADD=4'], split={'p0': R(2), 'p1': R(2), 'p2': R(2), 'p3': R(2)},
                witnesses=['done', 'merged_term_dropped', 'merged_term_kept', 'two_terms'], tiers=[T]),
          ],
)

PROPS['C15'] = dict(
    claim='MatsubaraContainer4::fill/operator() (real template, stub source with an injective value function) for a SYMBOLIC query triple in a '
          'box extending beyond the window on every side: returns the source value for hits and misses, uses the stored value exactly inside '
          'the window, every symbolic table index stays in bounds; Vertex4::value combines chi and the four Green functions as documented '
          '(coinciding frequencies included) and Vertex4::compute/operator() are transparent.',
    bounds={Q: 'window sizes N = 0..2, triples in [-N-2, N+1]^3 (symbolic); vertex at 6 frequency triples covering n1=n3, n2=n3, both, none',
            T: 'window sizes N = 0..4'},
    assumptions=['double read as exact real', 'chi and G evaluate as decided in C01/C02'],
    outside=['window sizes beyond the bound'],
    units=[dict(name='mc4_n2', harness='h_mc4', defs=['NMAX=2'], split={'N': R(3)}, witnesses=['done', 'hit', 'miss', 'empty_window'], validate=[{'N': 2, 'n1': 1, 'n2': -1, 'n3': 0}, {'N': 1, 'n1': 1, 'n2': 0, 'n3': 0}]),
           dict(name='mc4_n4', harness='h_mc4', defs=['NMAX=4'], split={'N': [3, 4]}, tiers=[T], witnesses=['done', 'hit', 'miss']),
           dict(name='vertex_value', harness='h_vertex', defs=[], split={'freq': R(6)}, witnesses=['done', 'n1_eq_n3', 'n2_eq_n3'],
                validate=[{'freq': 1}, {'freq': 3}])],
)

PROPS['C17'] = dict(
    claim='Memory-safety monitors of the symbolic executor (every load/store checked against object bounds, liveness and initialisation; '
          'branches and addresses that depend on uninitialised memory; signed overflow of nsw arithmetic; division by zero) run on every '
          'unit of every property.  This check runs the dedicated units for the anchored mechanisms: the three index-chasing loops over ALL '
          'pairs of sparsity patterns with storage arrays of exactly nnz elements, the Matsubara tables with symbolic indices, the state-label '
          'getters with symbolic labels beyond 2^N, Operator equality on monomials of different length.',
    bounds={Q: 'chase loops: all pattern pairs up to 2x2 (G, susceptibility), shapes (2,2,1,1)...(2,1,1,2) (2PGF); Matsubara window N<=2; '
               'state labels 0..2^N+2 on two block structures', T: 'G / susceptibility patterns 3x2 and 2x3'},
    assumptions=['a monitor hit is reported only after the native AddressSanitizer/UBSan replay reproduces it'],
    outside=['undefined behaviour without an IR-level trace (forming &v[0] of an empty vector: TwoParticleGF::compute with an empty '
             'frequency list)', 'data races (OpenMP pragma is compiled out)', 'workflows not driven by any unit'],
    units=[dict(name='gfpart_mem_2x2', harness='h_gfpart', defs=['OUTER=2', 'INNER=2', 'REGIME=2'], split={'C': R(16), 'CX': R(16)}, witnesses=['computed']),
           dict(name='gfpart_mem_3x2', harness='h_gfpart', defs=['OUTER=3', 'INNER=2', 'REGIME=2'], split={'C': R(64)}, tiers=[T], witnesses=['computed']),
           dict(name='gfpart_mem_2x3', harness='h_gfpart', defs=['OUTER=2', 'INNER=3', 'REGIME=2'], split={'C': R(64)}, tiers=[T], witnesses=['computed']),
           dict(name='suscpart_mem_2x2', harness='h_suscpart', defs=['OUTER=2', 'INNER=2', 'REGIME=2'], split={'A': R(16), 'B': R(16)}, witnesses=['computed']),
           # non-square block pairs: an index of one block used on the other block's data leaves the smaller object
           dict(name='suscpart_mem_2x1', harness='h_suscpart', defs=['OUTER=2', 'INNER=1', 'REGIME=2'], split={'A': R(4), 'B': R(4)}, witnesses=['computed']),
           dict(name='suscpart_mem_1x2', harness='h_suscpart', defs=['OUTER=1', 'INNER=2', 'REGIME=2'], split={'A': R(4), 'B': R(4)}, witnesses=['computed']),
           dict(name='suscpart_mem_3x2', harness='h_suscpart', defs=['OUTER=3', 'INNER=2', 'REGIME=2'], split={'A': R(64)}, tiers=[T], witnesses=['computed']),
           dict(name='gfpart_mem_2x1', harness='h_gfpart', defs=['OUTER=2', 'INNER=1', 'REGIME=2'], split={'C': R(4), 'CX': R(4)}, witnesses=['computed']),
           dict(name='gfpart_mem_1x2', harness='h_gfpart', defs=['OUTER=1', 'INNER=2', 'REGIME=2'], split={'C': R(4), 'CX': R(4)}, witnesses=['computed']),
           dict(name='2pgfpart_mem_2211', harness='h_2pgfpart', defs=['DIM1=2', 'DIM2=2', 'MEMONLY=1'], concrete=True,
                split={'O1': _P2(4), 'O2': _P2(2), 'O3': [0, 1], 'CX4': _P2(2)}, witnesses=['computed', 'done']),
           dict(name='2pgfpart_mem_1122', harness='h_2pgfpart', defs=['DIM3=2', 'DIM4=2', 'MEMONLY=1'], concrete=True,
                split={'O1': [0, 1], 'O2': _P2(2), 'O3': _P2(4), 'CX4': _P2(2)}, witnesses=['computed', 'done']),
           dict(name='mc4_mem', harness='h_mc4', defs=['NMAX=2'], split={'N': R(3)}, witnesses=['done', 'hit', 'miss']),
           dict(name='states_m1', harness='h_states', defs=['MODEL=1'], witnesses=['done', 'label_valid', 'label_out_of_range'], max_loop=20000,
                validate=[{'state': 2, 'block': 1, 'inner': 1}]),
           dict(name='states_m3', harness='h_states', defs=['MODEL=3'], witnesses=['done', 'label_valid', 'label_out_of_range'], max_loop=20000),
           dict(name='operator_eq_mem', harness='h_operator', defs=['MODE=3', 'PAIRSET=0', 'MODES=3'], max_loop=50000, witnesses=['done', 'different_pair'])],
)

PROPS['C13'] = dict(
    claim='The real IndexContainer4 / ElementWithPermFreq templates (instantiated with a stub element that returns a function chi_true '
          'satisfying both exchange identities by construction) are executed for every history of container operations inside the bound: '
          'whatever was filled or requested before, and whether the entry is stored or an alias, container(q)(n1,n2,n3) == chi_true(q;n1,n2,n3) '
          'for a SYMBOLIC frequency triple, and the elements listed for bulk computation are exactly the elements the entries refer to '
          '(which is what makes every listed element evaluable after a bulk computation).',
    bounds={Q: 'histories of 2 operations from {fill(all), fill({q}), fill({q,q2}), lookup(q)}, indices in {0,1} (16 quadruples), frequencies in [-2,2]^3',
            T: 'histories of 3 operations (first operation restricted to fill)'},
    assumptions=['the true two-particle Green function satisfies the two exchange identities (property of the physics, C02)',
                 'TwoParticleGF objects built for a quadruple are those of C02 (createElement passes the four operators in order: checked in unit tgfc_create)'],
    outside=['indices beyond {0,1}', 'histories longer than the bound', 'the MPI distribution of a bulk computation (C06)'],
    units=[dict(name='ic4_h1', harness='h_ic4', defs=['NOPS=1'], split={'op0': R(4), 'q0': R(16)}, witnesses=['done', 'alias_entry', 'stored_entry', 'query_absent'],
                validate=[{'op0': 1, 'q0': 6, 'query': 9, 'n1': 1, 'n2': -2, 'n3': 0}]),
           dict(name='ic4_h2', harness='h_ic4', defs=['NOPS=2', 'SYMFREQ=0'], split={'op0': R(4), 'q0': R(16)},
                witnesses=['done', 'alias_entry', 'stored_entry', 'fill_two', 'lookup', 'fill_all']),
           dict(name='ic4_h3', harness='h_ic4', defs=['NOPS=3', 'SYMFREQ=0'], split={'op0': [1, 2], 'q0': R(16), 'op1': R(4)}, tiers=[T], witnesses=['done', 'alias_entry'])],
)

PROPS['C16'] = dict(
    claim='The WHOLE real pMPI::mpi_skel<Job>::run (sorting, master construction, dispatch loop, dissemination of the map) with the real '
          'MPIMaster / MPIWorker classes is executed by several simulated ranks (cooperative threads of the engine, one address space) against '
          'an MPI model with non-overtaking channels, MPI matching order and nondeterministic delivery: every order in which the in-flight '
          'messages can be delivered is a fork decided by the solver-backed engine; the numbers of jobs and the job complexities are symbolic.',
    bounds={Q: 'ranks 1..3, jobs 0..3 (2 ranks) / 0..2 (3 ranks), 2 consecutive rounds with 2 ranks and 0..2 jobs; dedicated-master mode with 1-2 workers and 0..3 jobs; granularity: a rank runs to '
               'quiescence, then one message is delivered', T: '3 ranks x 0..3 jobs, 3 rounds with 2 ranks'},
    assumptions=['MPI model: buffered sends (eager protocol, 4-byte payloads), non-overtaking per (source,destination), matching in posting order, '
                 'request::test() of an inactive request returns an empty optional (Boost.MPI 1.83 headers)',
                 'run-to-quiescence granularity: a poll that finds nothing is a no-op, an arrival inside a segment equals an arrival at the next '
                 'quiescent point followed by one empty iteration (argument in model/mpi_multi.h)',
                 'every message that was sent is eventually delivered (fairness of the MPI implementation)'],
    outside=['more ranks / jobs / rounds than the bound', 'real MPI progress semantics beyond the model (rendezvous sends)'],
    units=[dict(name='dispatch_p1', harness='h_dispatch', defs=['NRANKS=1', 'MAXJOBS=3'], models=[], mpiexec=1, split={'jobs0': R(4)}, max_loop=200000,
                witnesses=['done', 'all_ranks_finished', 'round_without_jobs', 'more_jobs_than_ranks']),
           dict(name='dispatch_p2', harness='h_dispatch', defs=['NRANKS=2', 'MAXJOBS=3'], models=[], mpiexec=2, split={'jobs0': R(4)}, max_loop=200000,
                witnesses=['done', 'all_ranks_finished', 'round_without_jobs', 'fewer_jobs_than_ranks', 'more_jobs_than_ranks']),
           dict(name='dispatch_p3', harness='h_dispatch', defs=['NRANKS=3', 'MAXJOBS=2'], models=[], mpiexec=3, split={'jobs0': R(3)}, max_loop=200000,
                witnesses=['done', 'all_ranks_finished', 'round_without_jobs', 'fewer_jobs_than_ranks']),
           dict(name='dispatch_p2_r2', harness='h_dispatch', defs=['NRANKS=2', 'MAXJOBS=2', 'ROUNDS=2'], models=[], mpiexec=2, split={'jobs0': R(3), 'jobs1': R(3)},
                max_loop=200000, witnesses=['done', 'all_ranks_finished', 'round_without_jobs']),
           # dedicated-master mode (rank 0 only dispatches; the loops of test/mpi_dispatcher_test_nomaster.cpp): more jobs than workers included
           dict(name='dispatch_dedicated_p3', harness='h_dispatch', defs=['NRANKS=3', 'MAXJOBS=3', 'DEDICATED=1'], models=[], mpiexec=3, max_loop=200000,
                split={'jobs0': R(4), 'c0_0': [1], 'c0_1': [1], 'c0_2': [1]}, witnesses=['done', 'all_ranks_finished', 'round_without_jobs']),
           dict(name='dispatch_dedicated_p2', harness='h_dispatch', defs=['NRANKS=2', 'MAXJOBS=3', 'DEDICATED=1'], models=[], mpiexec=2, max_loop=200000,
                split={'jobs0': R(4), 'c0_0': [1], 'c0_1': [1], 'c0_2': [1]}, witnesses=['done', 'all_ranks_finished', 'more_jobs_than_ranks']),
           dict(name='dispatch_p3_j3', harness='h_dispatch', defs=['NRANKS=3', 'MAXJOBS=3'], models=[], mpiexec=3, split={'jobs0': [3], 'c0_0': [1, 2], 'c0_1': [1, 2]},
                max_loop=200000, tiers=[T], witnesses=['done', 'all_ranks_finished']),
           dict(name='dispatch_p2_r3', harness='h_dispatch', defs=['NRANKS=2', 'MAXJOBS=2', 'ROUNDS=3'], models=[], mpiexec=2, split={'jobs0': R(3), 'jobs1': R(3), 'jobs2': R(3)},
                max_loop=200000, tiers=[T], witnesses=['done', 'all_ranks_finished'])],
)

def _mpi_unit(name, nr, step, ncomp=1, clear='false', tiers=(Q, T), wit=('done',), extra=()):
    return dict(name=name, harness='h_mpisteps', defs=['NRANKS=%d' % nr, 'STEP=%d' % step, 'NCOMP=%d' % ncomp, 'CLEAR=%s' % clear] + list(extra), models=[],
                mpiexec=nr, numeric_exp=True, max_loop=2000000, max_steps=200_000_000, tiers=list(tiers), witnesses=list(wit))


PROPS['C06'] = dict(
    claim='Decided fragments of rank-independence and termination: (1) the dispatcher (units of C16: the whole mpi_skel::run on simulated ranks for every '
          'delivery order); (2) the real distributed steps Hamiltonian::prepare/compute, TwoParticleGF::compute and TwoParticleGFContainer::computeAll '
          '(split and unsplit) executed by 2-3 simulated ranks, each with its own objects, against the multi-rank MPI model (collectives are '
          'rendezvous with root / kind consistency checks): no deadlock, every rank ends with the eigen-data of a serial computation, the '
          'frequency tables equal the serial reference where the interface returns them, every listed two-particle component is evaluable on '
          'every rank.',
    bounds={Q: 'Hubbard atom (1x1 blocks: no eigen-solver), ranks 2 and 3, 1-3 two-particle components incl. more ranks than components and '
               'component counts not divisible by the number of colours; first 3 delivery decisions nondeterministic', T: 'same'},
    assumptions=['MPI model of C16', 'exp evaluated numerically in these concrete units (values compared to 1e-9)'],
    outside=['equality of floating-point results between REAL multi-rank runs (rounding / reduction order)', 'OpenMP thread schedules (the pragma is '
             'compiled out of the verification build)', 'models with blocks larger than 1x1 (eigen-solver)', 'rank counts beyond 3 (model capacity 4)'],
    units=[_mpi_unit('ham_p2', 2, 0), _mpi_unit('ham_p3', 3, 0),
           _mpi_unit('chi_nosplit_p2_c2', 2, 1, 2), _mpi_unit('chi_split_p2_c1', 2, 2, 1), _mpi_unit('chi_split_p2_c2', 2, 2, 2),
           _mpi_unit('chi_split_p2_c3', 2, 2, 3), _mpi_unit('chi_split_p3_c2', 3, 2, 2), _mpi_unit('chi_split_p2_c2_clear', 2, 2, 2, 'true'),
           _mpi_unit('chi_split_p2_c2_vanishing', 2, 2, 2, extra=['VANISH=1']), _mpi_unit('chi_nosplit_p2_c2_vanishing', 2, 1, 2, extra=['VANISH=1']),
           _mpi_unit('chi_nosplit_p3_c1', 3, 1, 1, tiers=(T,)), _mpi_unit('chi_split_p3_c3', 3, 2, 3, tiers=(T,))] +
          [dict(u, name='c16_' + u['name']) for u in PROPS['C16']['units'] if u['name'] in ('dispatch_p2', 'dispatch_p3')],
)

# "after a bulk computation every element the container lists is evaluable" includes the distributed bulk computation
PROPS['C13']['units'] += [dict(u, name='c06_' + u['name']) for u in PROPS['C06']['units'] if u['name'] in ('chi_split_p2_c3', 'chi_split_p3_c2')]
PROPS['C13']['claim'] += ('  Bulk computation of the real TwoParticleGFContainer (units c06_chi_split_*): after computeAll(split) on 2-3 simulated ranks with 2-3 '
                          'stored components every listed component is evaluable on every rank and equals a serial reference computation.')
PROPS['C13']['units'] += [dict(u, name='c02_' + u['name'], split={'quad': [5, 6, 10], 'clear': [0], 'beta': [2]}, validate=[], witnesses=['done', 'prepared_again'])
                          for u in PROPS['C02']['units'] if u['name'] == '2pgftable']
PROPS['C13']['claim'] += ('  Unit c02_2pgftable (real TwoParticleGF): asking a computed element to prepare() and compute() again - the lookup idiom after a bulk '
                          'computation - adds no parts and leaves its values unchanged.')
PROPS['C13']['outside'] = [o for o in PROPS['C13']['outside'] if 'MPI distribution' not in o] + ['MPI distribution of a bulk computation beyond 3 ranks / 3 components']
PROPS['C16']['claim'] += ('  Dedicated-master mode (units dispatch_dedicated_*): rank 0 runs MPIMaster(comm, ntasks, false) and only dispatches, the other ranks run the '
                          'MPIWorker loop of the library\'s own example; same obligations, more jobs than workers included.')
# the eigen-data "reported" by C03 are those every rank holds after the distributed Hamiltonian steps
PROPS['C03']['units'] += [dict(u, name='c06_' + u['name']) for u in PROPS['C06']['units'] if u['name'] in ('ham_p2',)]
PROPS['C03']['claim'] += ('  Distributed diagonalisation (unit c06_ham_p2): after Hamiltonian::prepare/compute on 2 simulated ranks every rank holds the '
                          'eigenvalues and eigenvector matrices of a local serial computation, for every delivery order of the dispatcher messages.')

_BET = [1, '1/2']
PROPS['C12'] = dict(
    claim='End-to-end chain of the real code (operator container, GreensFunction and TwoParticleGF prepare/compute/evaluation, Vertex4::value) on '
          'free-fermion inputs that need no eigen-solver: two modes with SYMBOLIC levels eps_i and SYMBOLIC occupation factors x_i; the single-particle '
          'function satisfies G_ii(z)(z-eps_i) = 1, G_ij = 0 for symbolic z, and the vertex vanishes for every index quadruple at Matsubara triples '
          'covering all coincidence patterns - as identities in (eps, x), decided by z3 (sum-of-monomials rewriting + nlsat).',
    bounds={Q: 'partition by particle number (blocks 1,2,1): all 16 quadruples x 7 frequency triples x beta in {1, 1/2}, non-degenerate and exactly '
               'degenerate (eps1 == eps0) levels; one-block partition: 4 quadruples x 3 triples',
            T: 'one-block partition: all quadruples and triples; symbolic beta for 4 quadruples (time-capped)'},
    assumptions=['double read as exact real', 'generic position: x_i in [1e-3, 1-1e-3], away from 1/2 and from each other, |eps|, |eps0 +- eps1| >= 1e-3 '
                 '(or exactly degenerate)', 'weights have the product form of a free-fermion Gibbs state (no relation between x_i and eps_i is needed)'],
    outside=['more than two modes; non-diagonal h (needs the eigen-solver)', 'energies closer than the resonance tolerance without being equal',
             'symbolic beta in the quick tier'],
    units=[dict(name='termlist_cancel_g', harness='h_termlist', defs=['KIND=0', 'NADD=3'], witnesses=['done', 'exact_cancellation', 'empty_after_cancellation'],
                validate=[{'p0': 1, 'p1': 1, 'p2': 0, 'c0': 2, 'c1': -2, 'c2': 3, 'Pa': 1, 'Pb': '-1/2'}]),
           dict(name='termlist_cancel_nr', harness='h_termlist', defs=['KIND=1', 'NADD=3'], witnesses=['done', 'exact_cancellation', 'empty_after_cancellation']),
           dict(name='wick_m1_prop', harness='h_wick', defs=['MODEL=1'], split={'mode': [0]}, max_loop=200000, witnesses=['operators_computed', 'propagator_checked'],
                validate=[{'mode': 0, 'eps0': '1/3', 'eps1': '-1/2', 'x0': '1/5', 'x1': '2/3', 'beta': 1}]),
           dict(name='wick_m2_prop', harness='h_wick', defs=['MODEL=2'], split={'mode': [0]}, max_loop=200000, witnesses=['operators_computed', 'propagator_checked']),
           dict(name='wick_m1_vertex', harness='h_wick', defs=['MODEL=1'], split={'mode': [1], 'quad': R(16), 'freq': R(7), 'beta': [1]}, max_loop=200000, job_timeout=150,
                query_timeout_ms=120000, witnesses=['vertex_checked', 'non_vanishing_chi'],
                validate=[{'mode': 1, 'quad': 5, 'freq': 1, 'eps0': '1/3', 'eps1': '-1/2', 'x0': '1/5', 'x1': '2/3', 'beta': 1}]),
           dict(name='wick_m1_vertex_degenerate', harness='h_wick', defs=['MODEL=1', 'DEGEN=1'], split={'mode': [1], 'quad': R(16), 'freq': R(7), 'beta': [1]}, job_timeout=150,
                max_loop=200000, query_timeout_ms=120000, witnesses=['vertex_checked', 'non_vanishing_chi']),
           dict(name='wick_m2_vertex_some', harness='h_wick', defs=['MODEL=2'], split={'mode': [1], 'quad': [5, 6, 9, 10], 'freq': [1, 4, 5], 'beta': [1]}, job_timeout=150,
                max_loop=200000, query_timeout_ms=300000, witnesses=['vertex_checked', 'non_vanishing_chi']),
           dict(name='wick_m2_vertex_all', harness='h_wick', defs=['MODEL=2'], split={'mode': [1], 'quad': R(16), 'freq': R(7), 'beta': [1]}, tiers=[T],
                max_loop=200000, query_timeout_ms=300000, witnesses=['vertex_checked']),
           dict(name='wick_m1_vertex_beta_half', harness='h_wick', defs=['MODEL=1'], split={'mode': [1], 'quad': R(16), 'freq': R(7), 'beta': ['1/2']}, tiers=[T],
                max_loop=200000, query_timeout_ms=300000, witnesses=['vertex_checked']),
           dict(name='wick_m1_vertex_symbeta', harness='h_wick', defs=['MODEL=1'], split={'mode': [1], 'quad': [5, 6, 9, 10], 'freq': [0, 4]}, tiers=[T],
                max_loop=200000, query_timeout_ms=300000, witnesses=['vertex_checked'])],
)

# Wick's theorem at coinciding frequencies rests on the resonance tolerance reaching the parts (floating-point noise between degenerate levels)
PROPS['C12']['units'] += [dict(u, name='c02_' + u['name'], split={'quad': [5, 6, 10], 'clear': [0], 'beta': [2]}, validate=[], witnesses=['done', 'tolerances_checked'])
                          for u in PROPS['C02']['units'] if u['name'] == '2pgftable']
PROPS['C12']['units'] += [dict(u, name='c02_' + u['name'], validate=[]) for u in PROPS['C02']['units'] if u['name'] in ('termmerge_res', 'termmerge_nonres')]
PROPS['C12']['claim'] += ('  Units c02_termmerge_*: the reduction of like two-particle terms (three additions, symbolic coefficients) keeps poles and sums coefficients - '
                          'the cancellations behind Wick\'s theorem in models with spectator orbitals merge three and more like terms.')
PROPS['C12']['claim'] += ('  Unit c02_2pgftable: the resonance / coefficient tolerances set on a two-particle component reach every part it creates (the vertex of a model '
                          'with degenerate levels is computed from eigenvalues that agree only up to rounding; the resonance tolerance is what absorbs that).')
