"""External functions / intrinsics of engine E2 (environment model + harness API)."""
import re
from fractions import Fraction
import z3
from . import irfront as F
from .irs import (PathEnd, EncodingLimit, UNDEF, SR, rparts, mk_real, radd, rsub, rmul, rneg, rcmp, _rv, _mul, _add,
                  is_conc_real, FORKED, THROW, JUMP, OBJ_SHIFT, OFF_MASK, to_bv, _signed, _mask, UnsupportedIR)


def _int(v, what):
    if type(v) is int:
        return v
    raise EncodingLimit('symbolic %s' % what)


# ---- memory ---------------------------------------------------------------
def b_new(E, st, fr, ins, args):
    n = args[0]
    if type(n) is not int:
        outs = E.concretize(st, n, what='allocation size')
        if len(outs) == 1:
            n = outs[0][1]
        else:
            # re-execute the call in each fork with the concrete size
            op = ins.ops[1]
            if op.k != 'local':
                raise EncodingLimit('symbolic constant allocation size')
            res = []
            for s, v in outs:
                s.frames[-1].regs[op.v] = v
                res.append(s)
            st._forks = res
            return FORKED
    if n > (1 << 30):
        raise PathEnd('memory', 'allocation of %d bytes' % n)
    return st.alloc(max(n, 1), 'heap', None, 'heap')


def b_malloc(E, st, fr, ins, args):
    return b_new(E, st, fr, ins, args)


def b_calloc(E, st, fr, ins, args):
    n = _int(args[0], 'calloc n') * _int(args[1], 'calloc size')
    return st.alloc(max(n, 1), 'heap', 0, 'heap')


def b_free(E, st, fr, ins, args):
    a = args[0]
    if a == 0:
        return None
    a = _int(a, 'pointer passed to free')
    oid = a >> OBJ_SHIFT
    o = st.mem.get(oid)
    if o is None or (a & OFF_MASK) != 0 or o.kind != 'heap':
        raise PathEnd('memory', 'free of a pointer that is not the start of a heap object')
    if not o.live:
        raise PathEnd('memory', 'double free')
    o = st.wobj(oid)
    o.live = False
    o.cells = {}
    return None


def b_realloc(E, st, fr, ins, args):
    a, n = _int(args[0], 'realloc ptr'), _int(args[1], 'realloc size')
    na = st.alloc(max(n, 1), 'heap', None, 'heap')
    if a:
        o = st.mem[a >> OBJ_SHIFT]
        E.memcpy(st, na, a, min(o.size, n))
        b_free(E, st, fr, ins, [a])
    return na


def b_memcpy(E, st, fr, ins, args):
    n = args[2]
    if type(n) is not int:
        outs = E.concretize(st, n, what='memcpy length')
        if len(outs) != 1:
            raise EncodingLimit('symbolic memcpy length')
        n = outs[0][1]
    E.memcpy(st, _int(args[0], 'memcpy dst'), _int(args[1], 'memcpy src'), n)
    return args[0]


def b_memset(E, st, fr, ins, args):
    E.memset(st, _int(args[0], 'memset dst'), args[1] if type(args[1]) is not int else args[1] & 255,
             _int(args[2], 'memset length'))
    return args[0]


def b_memcmp(E, st, fr, ins, args):
    a, b, n = _int(args[0], 'memcmp'), _int(args[1], 'memcmp'), _int(args[2], 'memcmp length')
    eqs = []
    for i in range(n):
        x = E.load(st, a + i, F.I8)
        y = E.load(st, b + i, F.I8)
        if type(x) is not int or type(y) is not int:
            if x is UNDEF or y is UNDEF:
                raise PathEnd('uninit', 'memcmp reads uninitialised bytes')
            eqs.append(to_bv(x, 8) == to_bv(y, 8))
            continue
        if x != y:
            if eqs:
                # ordering undecided by symbolic earlier bytes: only (in)equality is modelled -> non-zero
                return z3.If(z3.And(*eqs), z3.BitVecVal((1 if x > y else -1) & 0xffffffff, 32), z3.BitVecVal(1, 32))
            return (1 if x > y else -1) & 0xffffffff
    if eqs:
        # symbolic bytes: the result is 0 iff all of them agree (sign of a non-zero result is not modelled; the callers
        # in this code base only test for equality - std::equal / dynamic_bitset::operator==)
        return z3.If(z3.And(*eqs), z3.BitVecVal(0, 32), z3.BitVecVal(1, 32))
    return 0


def b_strlen(E, st, fr, ins, args):
    return len(E.cstring(st, _int(args[0], 'strlen arg')).encode('latin1'))


def b_memchr(E, st, fr, ins, args):
    a, c, n = _int(args[0], 'memchr'), _int(args[1], 'memchr') & 255, _int(args[2], 'memchr')
    for i in range(n):
        if E.load(st, a + i, F.I8) == c:
            return a + i
    return 0


# ---- exceptions -----------------------------------------------------------
def b_cxa_allocate_exception(E, st, fr, ins, args):
    return st.alloc(max(_int(args[0], 'exception size'), 1) + 0, 'heap', 0, 'exception')


def b_cxa_free_exception(E, st, fr, ins, args):
    return None


def b_cxa_throw(E, st, fr, ins, args):
    st.exc = (args[0], args[1])
    return THROW


def b_cxa_begin_catch(E, st, fr, ins, args):
    st.caught.append(st.exc if st.exc is not None else (args[0], 0))
    st.exc = None
    return args[0]


def b_cxa_end_catch(E, st, fr, ins, args):
    if st.caught:
        st.caught.pop()
    return None


def b_cxa_rethrow(E, st, fr, ins, args):
    if not st.caught:
        raise PathEnd('trap', 'rethrow without a caught exception -> std::terminate')
    st.exc = st.caught[-1]
    return THROW


def b_terminate(E, st, fr, ins, args):
    raise PathEnd('trap', 'std::terminate called')


def b_trap(E, st, fr, ins, args):
    raise PathEnd('trap', 'llvm.trap / abort executed in %s' % fr.fn.name)


def b_typeid_for(E, st, fr, ins, args):
    return E.typeid_for(args[0])


def b_uncaught(E, st, fr, ins, args):
    return 0


def _mk_throw_std(kind):
    def f(E, st, fr, ins, args):
        # std::__throw_xxx(msg): throw an object of a synthetic type 'std::<kind>'
        obj = st.alloc(32, 'heap', 0, 'exception')
        ti = E.std_typeinfo(st, kind)
        st.exc = (obj, ti)
        return THROW
    return f


def _std_typeinfo(self, st, kind):
    key = 'std_ti_' + kind
    a = self.gaddr.get(key)
    if a is None:
        # prefer the real external typeinfo global if the module names it
        names = {'length_error': '_ZTISt12length_error', 'logic_error': '_ZTISt11logic_error',
                 'bad_alloc': '_ZTISt9bad_alloc', 'out_of_range': '_ZTISt12out_of_range',
                 'bad_cast': '_ZTISt8bad_cast', 'bad_array_new_length': '_ZTISt20bad_array_new_length',
                 'runtime_error': '_ZTISt13runtime_error', 'bad_function_call': '_ZTISt17bad_function_call'}
        a = self.gaddr.get(names.get(kind, ''))
        if a is None:
            a = st.alloc(24, 'global', 0, 'typeinfo std::' + kind)
            base = self.gaddr.get('_ZTISt9exception')
            if base:
                self.store(st, a + 16, F.I64, base)
        self.gaddr[key] = a
    return a


# ---- math -----------------------------------------------------------------
def b_exp(E, st, fr, ins, args):
    return E.exp_of(st, args[0])


def _exp_of(self, st, x):
    if type(x) is float:
        raise EncodingLimit('exp of non-finite')
    n, d = rparts(x)
    if is_conc_real(n) and n == 0:
        st.exp_zero = getattr(st, 'exp_zero', 0) + 1
        return Fraction(1)
    t = mk_real(n, d)
    if is_conc_real(t) and (self.opts.get('concrete_defaults') or self.opts.get('numeric_exp')):
        import math
        st.exp_conc = getattr(st, 'exp_conc', ()) + (t,)
        if getattr(st, 'exp_scope', None) is not None:
            st.exp_scope = st.exp_scope + (_rv(t),)
        return Fraction(math.exp(float(t)))      # concrete validation run: numeric value, compared to 1e-9
    term = _rv(t) if is_conc_real(t) else t.term()
    term = z3.simplify(term)
    key = term.sexpr()
    app = self.exp_apps.get(key)
    if app is None:
        app = self.expfn(term)
        self.exp_apps[key] = (app, term)
    else:
        app = app[0]
    # positivity axiom instance for this application
    c = app > 0
    if not any(c.eq(p) for p in st.path[-64:]):
        st.path.append(c)
        st.model = None      # the cached model may not satisfy the new axiom instance
    st.exp_args = getattr(st, 'exp_args', ()) + ((term, app),)
    if getattr(st, 'exp_scope', None) is not None:
        st.exp_scope = st.exp_scope + (term,)
    return SR(app, 1)


def b_sqrt(E, st, fr, ins, args):
    x = args[0]
    n, d = rparts(x)
    if is_conc_real(n) and is_conc_real(d):
        v = Fraction(n) / Fraction(d)
        if v < 0:
            return float('nan')
        import math
        pn, pd = math.isqrt(v.numerator), math.isqrt(v.denominator)
        if pn * pn == v.numerator and pd * pd == v.denominator:
            return Fraction(pn, pd)
    r = z3.Real(E.fresh('sqrt'))
    st.path.append(r >= 0)
    st.path.append(_rv(_mul(r * r, d)) == _rv(n))
    st.model = None
    return SR(r, 1)


def b_fabs(E, st, fr, ins, args):
    x = args[0]
    if type(x) is float:
        return abs(x)
    n, d = rparts(x)
    if is_conc_real(n) and is_conc_real(d):
        return abs(Fraction(n) / Fraction(d))
    if is_conc_real(d):
        nn = _mul(n, Fraction(1) / Fraction(d))
        return SR(z3.If(nn >= 0, nn, -nn), 1)
    s = _rv(_mul(n, d))
    return SR(z3.If(s >= 0, _rv(n), -_rv(n)), d) if False else SR(z3.If(s >= 0, _rv(n), _rv(-n) if is_conc_real(n) else -n), d)


def b_cabs(E, st, fr, ins, args):
    re, im = args[0], args[1]
    if is_conc_real(im) and im == 0:
        return b_fabs(E, st, fr, ins, [re])
    if is_conc_real(re) and re == 0:
        return b_fabs(E, st, fr, ins, [im])
    s = radd(rmul(re, re), rmul(im, im))
    return b_sqrt(E, st, fr, ins, [s])


def b_fmuladd(E, st, fr, ins, args):
    return radd(rmul(args[0], args[1]), args[2])


def b_muldc3(E, st, fr, ins, args):
    a, b, c, d = args
    return (rsub(rmul(a, c), rmul(b, d)), radd(rmul(a, d), rmul(b, c)))


def b_divdc3(E, st, fr, ins, args):
    a, b, c, d = args
    den = radd(rmul(c, c), rmul(d, d))
    if is_conc_real(d) and d == 0:
        # real divisor
        return (E.rdiv(st, a, c, ins), E.rdiv(st, b, c, ins))
    # |c + i d|^2 = c^2 + d^2 vanishes iff c = d = 0: decide that on the two (smaller) numerators, then the divisor is positive
    cn, cd = rparts(c)
    dn, dd = rparts(d)
    from .irs import mark_pos, is_pos, _neg
    if is_pos(cd) and is_pos(dd):
        both0 = z3.And(_rv(cn) == 0, _rv(dn) == 0)
        r, m = E.feasible(st, both0)
        if r == 'sat':
            E.res.issues.append(dict(kind='divzero', msg='complex division by zero possible', where=E.where(st),
                                     inputs=E.model_of(st, m), stack=[f.fn.name for f in st.frames]))
        if r != 'unsat':
            st.path.append(z3.Not(both0))
            st.model = None
            if r == 'unknown':
                st.unsure = True
        dnum, dden = rparts(den)
        if not is_conc_real(dnum):
            mark_pos(dnum)
        # (x/den) with den = dnum/dden > 0
        def div_pos(x):
            xn, xd = rparts(x)
            nd = _mul(xd, dnum)
            if is_pos(xd):
                mark_pos(nd)
            return mk_real(_mul(xn, dden), nd)
        return (div_pos(radd(rmul(a, c), rmul(b, d))), div_pos(rsub(rmul(b, c), rmul(a, d))))
    re = E.rdiv(st, radd(rmul(a, c), rmul(b, d)), den, ins)
    im = E.rdiv(st, rsub(rmul(b, c), rmul(a, d)), den, ins)
    return (re, im)


def b_floor(E, st, fr, ins, args):
    x = args[0]
    if type(x) is Fraction or type(x) is int:
        import math
        return Fraction(math.floor(x))
    raise EncodingLimit('floor of symbolic real')


def b_pow(E, st, fr, ins, args):
    x, y = args
    if is_conc_real(y) and Fraction(y).denominator == 1 and 0 <= y <= 8:
        r = Fraction(1)
        for _ in range(int(y)):
            r = rmul(r, x)
        return r
    raise EncodingLimit('pow with symbolic exponent')


# ---- integer intrinsics ----------------------------------------------------
def _bits_of(ins):
    return ins.ty.bits


def b_abs(E, st, fr, ins, args):
    bits = _bits_of(ins)
    v = args[0]
    if type(v) is int:
        return abs(_signed(v, bits)) & _mask(bits)
    return z3.If(v < 0, -v, v)


def _minmax(signed, ismax):
    def f(E, st, fr, ins, args):
        bits = _bits_of(ins)
        a, b = args[0], args[1]
        if type(a) is int and type(b) is int:
            if signed:
                sa, sb = _signed(a, bits), _signed(b, bits)
                r = max(sa, sb) if ismax else min(sa, sb)
                return r & _mask(bits)
            return max(a, b) if ismax else min(a, b)
        za, zb = to_bv(a, bits), to_bv(b, bits)
        if signed:
            c = za > zb if ismax else za < zb
        else:
            c = z3.UGT(za, zb) if ismax else z3.ULT(za, zb)
        return z3.If(c, za, zb)
    return f


def b_ctpop(E, st, fr, ins, args):
    v = _int(args[0], 'ctpop operand')
    return bin(v).count('1')


def b_ctlz(E, st, fr, ins, args):
    bits = _bits_of(ins)
    v = _int(args[0], 'ctlz operand')
    return bits - v.bit_length()


def b_cttz(E, st, fr, ins, args):
    bits = _bits_of(ins)
    v = _int(args[0], 'cttz operand')
    if v == 0:
        return bits
    return (v & -v).bit_length() - 1


def b_usub_sat(E, st, fr, ins, args):
    a, b = _int(args[0], 'usub.sat'), _int(args[1], 'usub.sat')
    return max(a - b, 0)


def b_umul_ovf(E, st, fr, ins, args):
    bits = ins.ty.fields[0].bits
    a, b = args
    if type(a) is int and type(b) is int:
        p = a * b
        return (p & _mask(bits), int(p > _mask(bits)))
    za, zb = to_bv(a, bits), to_bv(b, bits)
    return (za * zb, z3.Not(z3.BVMulNoOverflow(za, zb, False)))


def b_uadd_ovf(E, st, fr, ins, args):
    bits = ins.ty.fields[0].bits
    a, b = _int(args[0], 'uadd'), _int(args[1], 'uadd')
    p = a + b
    return (p & _mask(bits), int(p > _mask(bits)))


def b_bswap(E, st, fr, ins, args):
    bits = _bits_of(ins)
    v = _int(args[0], 'bswap')
    return int.from_bytes(v.to_bytes(bits // 8, 'little'), 'big')


def b_fshl(E, st, fr, ins, args):
    bits = _bits_of(ins)
    a, b, c = (_int(x, 'fshl') for x in args)
    c %= bits
    return (((a << bits) | b) >> (bits - c)) & _mask(bits) if c else a


def b_assume(E, st, fr, ins, args):
    return None


def b_nop(E, st, fr, ins, args):
    return None


def b_ret_arg0(E, st, fr, ins, args):
    return args[0]


def b_ret0(E, st, fr, ins, args):
    return 0


def b_ret1(E, st, fr, ins, args):
    return 1


def b_guard_acquire(E, st, fr, ins, args):
    g = args[0]
    v = E.load(st, g, F.I8)
    return 0 if v else 1


def b_guard_release(E, st, fr, ins, args):
    E.store(st, args[0], F.I8, 1)
    return None


def b_pure_virtual(E, st, fr, ins, args):
    raise PathEnd('trap', 'pure virtual function called')


# ---- harness API -----------------------------------------------------------
def b_sym_int(E, st, fr, ins, args):
    name = E.cstring(st, args[0])
    lo, hi = _signed(_int(args[1], 'sym_int lo'), 64), _signed(_int(args[2], 'sym_int hi'), 64)
    if name in E.fixed:
        v = int(E.fixed[name])
        st.inputs[name] = v
        if not (lo <= v <= hi):
            raise PathEnd('infeasible')
        return v & _mask(64)
    if lo == hi or E.opts.get('concrete_defaults'):
        st.inputs[name] = lo
        return lo & _mask(64)
    if name in st.inputs:
        name = '%s#%d' % (name, len(st.inputs))
    v = z3.BitVec(name, 64)
    st.inputs[name] = v
    st.path.append(v >= lo)
    st.path.append(v <= hi)
    st.model = None
    return v


def b_sym_real(E, st, fr, ins, args):
    name = E.cstring(st, args[0])
    if name in E.fixed:
        v = Fraction(E.fixed[name])
        st.inputs[name] = v
        return v
    if E.opts.get('concrete_defaults'):
        from .runner import default_real
        v = Fraction(default_real(name))
        st.inputs[name] = v
        return v
    if name in st.inputs:
        name = '%s#%d' % (name, len(st.inputs))
    v = z3.Real(name)
    st.inputs[name] = v
    return SR(v, 1)


def b_assume_h(E, st, fr, ins, args):
    c = args[0]
    cb = E.as_bool(c)
    if cb is True:
        return None
    if cb is False:
        raise PathEnd('infeasible')
    cb = z3.simplify(cb)
    if z3.is_true(cb):
        return None
    if z3.is_false(cb):
        raise PathEnd('infeasible')
    r, m = E.feasible(st, cb)
    if r == 'unsat':
        raise PathEnd('infeasible')
    st.path.append(cb)
    st.model = m
    if r == 'unknown':
        st.unsure = True
    return None


def _do_check(E, st, cond, label):
    rec = E.res.chk(label)
    cb = E.as_bool(cond) if not isinstance(cond, bool) else cond
    if cb is True:
        rec['concrete'] += 1
        return
    if cb is not False:
        cb = z3.simplify(cb)
        if z3.is_true(cb):
            rec['concrete'] += 1
            return
    if cb is False or z3.is_false(cb):
        r, m = ('sat', st.model) if st.model is not None else E.solve(st.path)
        neg = None
    else:
        neg = z3.Not(cb)
        _t0 = __import__('time').time()
        r, m = E.solve(st.path + [neg])
        if __import__('os').environ.get('VERIF_SLOWLOG') and __import__('time').time() - _t0 > 1.0:
            print('SLOW %.1fs %s -> %s (path %d)' % (__import__('time').time() - _t0, label, r, len(st.path)), flush=True)
    if r == 'unsat':
        rec['discharged'] += 1
        st.path.append(cb)
        return
    if r == 'unknown':
        rec['inconclusive'] += 1
        E.res.errors_inconclusive = getattr(E.res, 'errors_inconclusive', 0) + 1
        if neg is not None:
            st.path.append(cb)
        return
    rec['violated'] += 1
    inputs = E.model_of(st, m)
    E.res.violations.append(dict(label=label, inputs=inputs, where=E.where(st),
                                 trace=[t for t in st.trace if t[0] in ('note', 'reach')][-12:]))
    # continue under the checked condition if that is still feasible
    if neg is None:
        raise PathEnd('violation')
    r2, m2 = E.solve(st.path + [cb])
    if r2 != 'sat':
        raise PathEnd('violation')
    st.path.append(cb)
    st.model = m2


def b_check(E, st, fr, ins, args):
    _do_check(E, st, args[0], E.cstring(st, args[1]))
    return None


def b_check_eq(E, st, fr, ins, args):
    label = E.cstring(st, args[2])
    a, b = args[0], args[1]
    c = None
    try:
        an, ad = rparts(a)
        bn, bd = rparts(b)
        if not (is_conc_real(an) and is_conc_real(ad) and is_conc_real(bn) and is_conc_real(bd)):
            # polynomial identity  an*bd - bn*ad == 0 : first through z3's rewriter in sum-of-monomials normal form
            # (decides identities of the commutative ring without case analysis), then through the solver
            d = z3.simplify(_rv(_mul(an, bd)) - _rv(_mul(bn, ad)), som=True)
            if z3.is_rational_value(d):
                c = (d.as_fraction() == 0)
                if c:
                    rec = E.res.chk(label)
                    rec['discharged'] += 1
                    rec['by_rewriter'] = rec.get('by_rewriter', 0) + 1
                    return None
            else:
                c = (d == 0)
    except EncodingLimit:
        raise
    if c is None:
        c = rcmp('eq', a, b)
    _do_check(E, st, c, label)
    return None


def b_check_le(E, st, fr, ins, args):
    c = rcmp('le', args[0], args[1])
    _do_check(E, st, c, E.cstring(st, args[2]))
    return None


def b_reach(E, st, fr, ins, args):
    label = E.cstring(st, args[0])
    if not st.unsure:
        E.res.reached[label] = E.res.reached.get(label, 0) + 1
    st.trace.append(('reach', label))
    return None


def b_note(E, st, fr, ins, args):
    st.trace.append(('note', E.cstring(st, args[0])))
    return None


def b_record(E, st, fr, ins, args):
    v = args[1]
    if type(v) is SR:
        v = str(z3.simplify(v.term()))
    elif type(v) is Fraction:
        v = str(v)
    st.trace.append(('rec', E.cstring(st, args[0]), v))
    return None


def b_record_int(E, st, fr, ins, args):
    v = args[1]
    if type(v) is int:
        v = _signed(v, 64)
    else:
        v = str(v)
    st.trace.append(('rec', E.cstring(st, args[0]), v))
    return None


def b_exp_lemma_add(E, st, fr, ins, args):
    a, b = args
    ea = E.exp_of(st, a)
    eb = E.exp_of(st, b)
    eab = E.exp_of(st, radd(a, b))
    c = rcmp('eq', eab, rmul(ea, eb))
    if c is not True:
        st.path.append(c)
        st.model = None
    E.res.lemmas.add('E(a+b)=E(a)E(b)')
    return eab


def b_exp_lemma_inv(E, st, fr, ins, args):
    a = args[0]
    ea = E.exp_of(st, a)
    ena = E.exp_of(st, rneg(a))
    c = rcmp('eq', rmul(ea, ena), Fraction(1))
    if c is not True:
        st.path.append(c)
        st.model = None
    E.res.lemmas.add('E(a)E(-a)=1')
    return ea


def b_check_exp_args(E, st, fr, ins, args):
    """every argument handed to exp() so far on this path is <= 0 and at least one of them is exactly 0
    (the overflow-avoidance mechanism of the density matrix: weights are exp(-beta (E - E_ground)))"""
    label = E.cstring(st, args[0])
    apps = getattr(st, 'exp_args', ())
    zero_seen = getattr(st, 'exp_zero', 0)
    for t in getattr(st, 'exp_conc', ()):
        apps = apps + ((_rv(t), None),)
    conds = [t <= 0 for (t, a) in apps]
    _do_check(E, st, z3.And(*conds) if conds else True, label + ': every exp argument <= 0')
    some0 = z3.Or(*[t == 0 for (t, a) in apps]) if apps else False
    _do_check(E, st, True if zero_seen else some0, label + ': some exp argument == 0')
    return None


def b_exp_scope_begin(E, st, fr, ins, args):
    st.exp_scope = ()
    return None


def b_check_exp_no_overflow(E, st, fr, ins, args):
    """floating-point range obligation: no argument handed to exp() inside the scope can exceed 709 (exp overflows a double above
    709.78), whatever the values of the symbols are"""
    label = E.cstring(st, args[0])
    terms = getattr(st, 'exp_scope', None) or ()
    conds = [t <= 709 for t in terms]
    _do_check(E, st, z3.And(*conds) if conds else True, label + ': no exp argument exceeds 709 (overflow of a double)')
    st.exp_scope = None
    return None


def b_concretize(E, st, fr, ins, args):
    v = args[0]
    if type(v) is int:
        return v
    outs = E.concretize(st, v, what='harness value')
    res = []
    for s, val in outs:
        E.complete_call(s, ins, val)
        res.append(s)
    if len(res) == 1 and res[0] is st:
        return JUMP
    st._forks = res
    return FORKED


# ---- cooperative threads (one simulated MPI rank per thread, all in one address space) -----------------
def b_thread_create(E, st, fr, ins, args):
    fa = _int(args[0], 'thread function')
    name = E.fbyaddr.get(fa)
    if name is None:
        raise PathEnd('memory', 'thread function pointer is not a function')
    f = E.mod.funcs[E.mod.aliases.get(name, name)]
    tid = st.next_tid
    st.next_tid += 1
    saved = st.frames
    st.frames = []
    E.push_frame(st, f, [args[1]], None)
    st.threads[tid] = st.frames
    st.frames = saved
    return tid


def b_switch(E, st, fr, ins, args):
    tid = _int(args[0], 'thread id')
    if tid == st.cur_tid:
        return None
    if tid in st.finished or tid not in st.threads:
        raise PathEnd('trap', 'switch to a finished / unknown thread %d' % tid)
    E.complete_call(st, ins, None)
    st.threads[st.cur_tid] = st.frames
    st.frames = st.threads.pop(tid)
    st.cur_tid = tid
    return JUMP


def b_thread_finished(E, st, fr, ins, args):
    return int(_int(args[0], 'thread id') in st.finished)


def b_cur_thread(E, st, fr, ins, args):
    return st.cur_tid


# ---- tables -----------------------------------------------------------------
EXACT = {
    '_Znwm': b_new, '_Znam': b_new, 'malloc': b_malloc, 'calloc': b_calloc, 'realloc': b_realloc,
    '_ZdlPv': b_free, '_ZdaPv': b_free, 'free': b_free, '_ZdlPvm': b_free, '_ZdaPvm': b_free,
    'memcmp': b_memcmp, 'bcmp': b_memcmp, 'strlen': b_strlen, 'memchr': b_memchr,
    'memcpy': b_memcpy, 'memmove': b_memcpy, 'memset': b_memset,
    '__cxa_allocate_exception': b_cxa_allocate_exception, '__cxa_free_exception': b_cxa_free_exception,
    '__cxa_throw': b_cxa_throw, '__cxa_begin_catch': b_cxa_begin_catch, '__cxa_end_catch': b_cxa_end_catch,
    '__cxa_rethrow': b_cxa_rethrow, '_ZSt9terminatev': b_terminate, 'abort': b_trap, 'llvm.trap': b_trap,
    '__cxa_pure_virtual': b_pure_virtual, '_ZSt18uncaught_exceptionv': b_uncaught,
    '__cxa_atexit': b_ret0, '__cxa_guard_acquire': b_guard_acquire, '__cxa_guard_release': b_guard_release,
    '__cxa_guard_abort': b_nop,
    'exp': b_exp, 'sqrt': b_sqrt, 'cabs': b_cabs, 'fabs': b_fabs, 'floor': b_floor, 'pow': b_pow,
    '__muldc3': b_muldc3, '__divdc3': b_divdc3,
    '_ZSt17__throw_bad_allocv': _mk_throw_std('bad_alloc'),
    '_ZSt28__throw_bad_array_new_lengthv': _mk_throw_std('bad_array_new_length'),
    '_ZSt16__throw_bad_castv': _mk_throw_std('bad_cast'),
    '_ZSt20__throw_length_errorPKc': _mk_throw_std('length_error'),
    '_ZSt19__throw_logic_errorPKc': _mk_throw_std('logic_error'),
    '_ZSt20__throw_out_of_rangePKc': _mk_throw_std('out_of_range'),
    '_ZSt24__throw_out_of_range_fmtPKcz': _mk_throw_std('out_of_range'),
    '_ZSt25__throw_bad_function_callv': _mk_throw_std('bad_function_call'),
    '_ZSt21__throw_runtime_errorPKc': _mk_throw_std('runtime_error'),
    '__v_sym_int': b_sym_int, '__v_sym_real': b_sym_real, '__v_assume': b_assume_h, '__v_check': b_check,
    '__v_check_eq': b_check_eq, '__v_check_le': b_check_le, '__v_reach': b_reach, '__v_note': b_note,
    '__v_record': b_record, '__v_record_int': b_record_int, '__v_exp_lemma_add': b_exp_lemma_add,
    '__v_exp_lemma_inv': b_exp_lemma_inv, '__v_concretize': b_concretize, '__v_check_exp_args': b_check_exp_args,
    '__v_exp_scope_begin': b_exp_scope_begin, '__v_check_exp_no_overflow': b_check_exp_no_overflow,
    '__v_thread_create': b_thread_create, '__v_switch': b_switch, '__v_thread_finished': b_thread_finished, '__v_cur_thread': b_cur_thread,
    # std exception plumbing that lives in libstdc++.so
    '_ZNSt9exceptionD2Ev': b_nop, '_ZNSt9exceptionD1Ev': b_nop, '_ZNSt9bad_allocD1Ev': b_nop,
    '_ZNSt11logic_errorC2EPKc': b_nop, '_ZNSt11logic_errorD2Ev': b_nop, '_ZNSt11logic_errorD1Ev': b_nop,
    '_ZNSt13runtime_errorC2EPKc': b_nop, '_ZNSt13runtime_errorD2Ev': b_nop, '_ZNSt13runtime_errorD1Ev': b_nop,
    '_ZNSt13runtime_errorC2ERKS_': b_nop, '_ZNSt13runtime_errorC1ERKS_': b_nop, '_ZNSt13runtime_errorC1EPKc': b_nop,
    '_ZNSt14overflow_errorC1EPKc': b_nop, '_ZNSt14overflow_errorD1Ev': b_nop, '_ZNSt14overflow_errorD2Ev': b_nop,
    '_ZNSt8ios_base4InitC1Ev': b_nop, '_ZNSt8ios_base4InitD1Ev': b_nop, '_ZNSt8ios_baseD2Ev': b_nop,
    '_ZNSt6localeC1ERKS_': b_nop, '_ZNSt6localeD1Ev': b_nop, '_ZNSt6localeC1Ev': b_nop,
    '_ZNKSt5ctypeIcE13_M_widen_initEv': b_nop,
}

PREFIX = [
    ('llvm.memcpy.', b_memcpy), ('llvm.memmove.', b_memcpy), ('llvm.memset.', b_memset),
    ('llvm.lifetime.', b_nop), ('llvm.invariant.', b_ret0), ('llvm.assume', b_assume), ('llvm.prefetch', b_nop),
    ('llvm.experimental.noalias', b_nop), ('llvm.dbg.', b_nop), ('llvm.eh.typeid.for', b_typeid_for),
    ('llvm.fabs.', b_fabs), ('llvm.fmuladd.', b_fmuladd), ('llvm.fma.', b_fmuladd), ('llvm.sqrt.', b_sqrt),
    ('llvm.abs.', b_abs), ('llvm.smax.', _minmax(True, True)), ('llvm.smin.', _minmax(True, False)),
    ('llvm.umax.', _minmax(False, True)), ('llvm.umin.', _minmax(False, False)),
    ('llvm.ctpop.', b_ctpop), ('llvm.ctlz.', b_ctlz), ('llvm.cttz.', b_cttz), ('llvm.usub.sat.', b_usub_sat),
    ('llvm.umul.with.overflow.', b_umul_ovf), ('llvm.uadd.with.overflow.', b_uadd_ovf), ('llvm.bswap.', b_bswap),
    ('llvm.fshl.', b_fshl), ('llvm.exp.', b_exp), ('llvm.floor.', b_floor),
    ('llvm.stacksave', b_ret0), ('llvm.stackrestore', b_nop),
]

# ostream / ios insertions: formatting is never the subject -> return the stream argument
_OSTREAM = re.compile(r'^_Z(NSo|NSolsE|StlsI|St4endlI|St5flushI|St16__ostream_insertI|NSo9_M_insertI|NSo5flushEv|NSo3putEc|'
                      r'NSt9basic_iosI|NKSt9basic_iosI|St4setwi|NSolsEPFRSoS_E|NSt8ios_base)')


_STDEXC = re.compile(r'^_ZNSt(11logic_error|13runtime_error|12length_error|12out_of_range|14overflow_error|16invalid_argument|12domain_error|9exception|9bad_alloc|8bad_cast)[CD][0-2]E')


def lookup(E, name):
    b = EXACT.get(name)
    if b is not None:
        return b
    if _STDEXC.match(name):
        return b_nop
    for p, f in PREFIX:
        if name.startswith(p):
            return f
    if _OSTREAM.match(name):
        f = E.mod.funcs.get(name)
        if f is not None and f.ret.k == 'void':
            return b_nop
        return b_ret_arg0
    return None


def install(E):
    E.exp_of = lambda st, x: _exp_of(E, st, x)
    E.std_typeinfo = lambda st, kind: _std_typeinfo(E, st, kind)
    # names that must take precedence over definitions in the module
    for n in ('__v_sym_int', '__v_sym_real', '__v_assume', '__v_check', '__v_check_eq', '__v_check_le', '__v_reach',
              '__v_note', '__v_record', '__v_record_int', '__v_exp_lemma_add', '__v_exp_lemma_inv', '__v_concretize', '__v_check_exp_args', '__v_exp_scope_begin', '__v_check_exp_no_overflow',
              '__v_thread_create', '__v_switch', '__v_thread_finished', '__v_cur_thread',
              '_Znwm', '_Znam', '_ZdlPv', '_ZdaPv', '_ZdlPvm', 'malloc', 'free', 'calloc', 'realloc'):
        E.builtins[n] = EXACT[n]
    # any ostream function that happens to be defined in the module (implicit instantiation) is still a no-op
    for name, f in E.mod.funcs.items():
        if _OSTREAM.match(name):
            E.builtins[name] = b_nop if f.ret.k == 'void' else b_ret_arg0
