#!/bin/bash
# offline set-up: verify the tools, byte-compile the framework; nothing is fetched
set -e
cd "$(dirname "$0")"
for t in clang++-14 llvm-link-14 opt-14 g++ python3-vt cbmc z3; do command -v $t >/dev/null || { echo "missing tool $t"; exit 1; }; done
python3-vt -c "import z3; print('z3', z3.get_version_string())"
python3-vt -m compileall -q vlib
mkdir -p evidence replay
echo "setup ok"
