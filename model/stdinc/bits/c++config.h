// Wrapper placed first on the include path of every verification compile:
// makes libstdc++ instantiate std::basic_string's out-of-line members from the
// real headers (basic_string.tcc) instead of referring to libstdc++.so, so the
// engines execute the real string code and need no string model.
#include_next <bits/c++config.h>
#undef _GLIBCXX_EXTERN_TEMPLATE
#define _GLIBCXX_EXTERN_TEMPLATE -1
