// Multi-rank world for the dispatcher / distribution units (C16, C06): all simulated ranks run as cooperative threads of the
// symbolic engine in ONE address space.  Included by the harness (not linked as a separate model file).
//
// Scheduling model ("run to quiescence, then deliver one message"):
//   * a rank runs until it is blocked in a collective, has left its program, or polls without success twice in a row without
//     having made progress in between (send, completed receive, job execution) - it is then QUIESCENT;
//   * when every rank is blocked / quiescent / done the scheduler (main thread) either releases a complete collective or picks,
//     NONDETERMINISTICALLY (a fork of the engine), one channel (source,destination) with a message in flight and delivers its
//     oldest message (messages of one channel do not overtake each other); matching follows MPI: a message goes to the earliest
//     posted pending receive of the destination whose (communicator, source, tag) pattern it matches, otherwise it waits as an
//     unexpected message and is matched when a receive is posted;
//   * no message in flight, no collective complete and some rank not done  =>  DEADLOCK (reported by the harness).
// Soundness of the granularity: ranks interact through messages only; a poll that finds nothing is a no-op, so an arrival
// inside a segment is indistinguishable from an arrival at the next quiescent point followed by one more (empty) iteration.
// Sends are buffered (eager protocol; the dispatcher's payloads are 4 bytes).
#ifndef VERIF_MPI_MULTI_H
#define VERIF_MPI_MULTI_H
#include "verif.h"

namespace vm {
enum { MAXR = 4, MAXC = 8, CAP = 128 };
enum YState { RUNNING = 0, QUIESCENT, IN_COLL, DONE };
struct Comm { int n; int member[MAXR]; };
struct Msg { int src, dst, comm, tag, has, payload, state; /* 0 in flight, 1 arrived unexpected, 2 consumed */ };
struct Req { int owner, comm, src, tag; int* dst; int state; /* 1 pending 2 complete 3 cancelled 0 consumed */ int rtag, rsrc; };
struct Coll { int kind, root; const void* ptr[MAXR]; int arrived[MAXR]; int narrived; int phase; /* 0 gathering, 1 released, */ int left; };

static int P = 1;
static long tid_of[MAXR];
static Comm comms[MAXC]; static int ncomms = 1;
static Msg msgs[CAP]; static int nmsg = 0;
static Req reqs[CAP]; static int nreq = 0;
static int ystate[MAXR], progress[MAXR], failed_polls[MAXR];
static Coll coll[MAXC];
static const void* gathered[MAXC][MAXR];
static long sent_total = 0, delivered_total = 0;
static int last_coll[MAXR], last_phase[MAXR];

inline int wrank() { long t = __v_cur_thread(); for (int r = 0; r < P; ++r) if (tid_of[r] == t) return r; return 0; }
inline int crank(int c, int world) { for (int i = 0; i < comms[c].n; ++i) if (comms[c].member[i] == world) return i; return -1; }
inline void yield_to_scheduler(int st) { int r = wrank(); ystate[r] = st; progress[r] = 0; __v_switch(0); ystate[r] = RUNNING; }

inline void init(int nranks) {
    P = nranks; ncomms = 1; comms[0].n = P; for (int r = 0; r < P; ++r) comms[0].member[r] = r;
    nmsg = nreq = 0; sent_total = delivered_total = 0;
    for (int r = 0; r < MAXR; ++r) { ystate[r] = RUNNING; progress[r] = 1; failed_polls[r] = 0; }
    for (int c = 0; c < MAXC; ++c) { coll[c].narrived = 0; coll[c].phase = 0; coll[c].left = 0; for (int r = 0; r < MAXR; ++r) coll[c].arrived[r] = 0; }
}
inline bool req_matches(const Req& q, const Msg& m) {
    return q.owner == m.dst && q.comm == m.comm && (q.src == -2 || q.src == crank(m.comm, m.src)) && (q.tag == -1 || q.tag == m.tag);
}
inline void complete(Req& q, Msg& m) { q.state = 2; q.rtag = m.tag; q.rsrc = crank(m.comm, m.src); if (m.has && q.dst) *q.dst = m.payload; m.state = 2; }
// scheduler side: deliver message i (must be the oldest in flight on its channel)
inline void deliver(int i) {
    Msg& m = msgs[i];
    ++delivered_total;
    for (int k = 0; k < nreq; ++k) if (reqs[k].state == 1 && req_matches(reqs[k], m)) { complete(reqs[k], m); progress[m.dst] = 1; return; }
    m.state = 1;
    progress[m.dst] = 1;     // an unexpected message may be matched by a receive posted later: let the rank run once more
}
inline int inflight_on(int src, int dst) { for (int i = 0; i < nmsg; ++i) if (msgs[i].state == 0 && msgs[i].src == src && msgs[i].dst == dst) return i; return -1; }
// collective rendezvous (rank side)
inline void coll_enter(int c, int kind, int root, const void* mine) {
    int r = wrank(), cr = crank(c, r);
    Coll& k = coll[c];
    if (k.narrived == 0) { k.kind = kind; k.root = root; }
    else verif::check(k.kind == kind && k.root == root, "all ranks of a communicator call the same collective with the same root");
    k.ptr[cr] = mine; k.arrived[cr] = 1; ++k.narrived; last_coll[r] = c * 10 + kind; last_phase[r] = 1;
    while (k.phase == 0) yield_to_scheduler(IN_COLL);
}
inline void coll_leave(int c) {
    Coll& k = coll[c];
    last_phase[wrank()] = 2;
    if (++k.left == comms[c].n) {
        k.narrived = 0; k.phase = 0; k.left = 0;
        for (int i = 0; i < MAXR; ++i) k.arrived[i] = 0;
        for (int i = 0; i < comms[c].n; ++i) progress[comms[c].member[i]] = 1;      // wake the ranks waiting to leave
    } else { while (k.phase == 1 && k.left != 0) yield_to_scheduler(IN_COLL); }
}
}  // namespace vm

extern "C" {
int  __vmpi_rank(int c) { return vm::crank(c, vm::wrank()); }
int  __vmpi_size(int c) { return vm::comms[c].n; }
void __vmpi_barrier(int c) { vm::coll_enter(c, 2, -1, 0); vm::coll_leave(c); }
int  __vmpi_split(int c, int color) {
    // a collective over c: every member publishes its colour, then each rank builds (or finds) the communicator of its colour
    static int colors[vm::MAXC][vm::MAXR];
    static int newid[vm::MAXC][vm::MAXR];
    int me = vm::crank(c, vm::wrank());
    colors[c][me] = color;
    vm::coll_enter(c, 3, -1, 0);
    // the first rank that runs after the release computes the table of new communicators once; the others read it
    static int table_ready[vm::MAXC];
    if (!table_ready[c]) {
        int next = vm::ncomms;
        for (int i = 0; i < vm::comms[c].n; ++i) {
            int same = -1;
            for (int j = 0; j < i; ++j) if (colors[c][j] == colors[c][i]) { same = j; break; }
            if (same < 0) { newid[c][i] = next; vm::comms[next].n = 0; ++next; } else newid[c][i] = newid[c][same];
            vm::Comm& nc = vm::comms[newid[c][i]];
            nc.member[nc.n++] = vm::comms[c].member[i];
        }
        vm::ncomms = next;
        table_ready[c] = vm::comms[c].n;      // counts the readers still to come
    }
    int id = newid[c][me];
    if (--table_ready[c] < 0) table_ready[c] = 0;
    vm::coll_leave(c);
    return id;
}
void __vmpi_send(int c, int dest, int tag, int has, int payload) {
    if (vm::nmsg >= vm::CAP) __builtin_trap();
    vm::Msg m = {vm::wrank(), vm::comms[c].member[dest], c, tag, has, payload, 0};
    vm::msgs[vm::nmsg++] = m; ++vm::sent_total;
    vm::progress[vm::wrank()] = 1;
}
int __vmpi_irecv(int c, int source, int tag, int* dst) {
    if (vm::nreq >= vm::CAP) __builtin_trap();
    vm::Req q = {vm::wrank(), c, source, tag, dst, 1, -1, -1};
    for (int i = 0; i < vm::nmsg; ++i) if (vm::msgs[i].state == 1 && vm::req_matches(q, vm::msgs[i])) { vm::complete(q, vm::msgs[i]); break; }
    vm::reqs[vm::nreq] = q;
    return ++vm::nreq;
}
int __vmpi_test(int h, int* tag_out, int* src_out) {
    vm::Req& q = vm::reqs[h - 1];
    int r = vm::wrank();
    if (q.state == 2) { *tag_out = q.rtag; *src_out = q.rsrc; q.state = 0; vm::progress[r] = 1; return 1; }
    // unsuccessful poll: quiescent when nothing happened since the previous unsuccessful poll
    if (vm::progress[r]) { vm::progress[r] = 0; return 0; }
    vm::yield_to_scheduler(vm::QUIESCENT);
    if (q.state == 2) { *tag_out = q.rtag; *src_out = q.rsrc; q.state = 0; vm::progress[r] = 1; return 1; }
    return 0;
}
void __vmpi_cancel(int h) { if (vm::reqs[h - 1].state == 1) vm::reqs[h - 1].state = 3; }
const void* __vmpi_bcast_sync(int c, int root, const void* mine, long) {
    vm::coll_enter(c, 0, root, mine);
    return vm::coll[c].ptr[root];
}
const void* const* __vmpi_gather_ptrs(int c, int root, const void* mine, long) {
    vm::coll_enter(c, 1, root, mine);
    for (int i = 0; i < vm::comms[c].n; ++i) vm::gathered[c][i] = vm::coll[c].ptr[i];
    return vm::gathered[c];
}
void __vmpi_coll_done(int c) { vm::coll_leave(c); }
}

namespace vm {
// The scheduler: returns true when every rank thread has finished, false on deadlock.  step_cap bounds the number of
// scheduler actions (reported as a bound problem by the harness, never as success).
inline int run_all(void (*rank_main)(long), int step_cap) {
    for (int r = 0; r < P; ++r) tid_of[r] = __v_thread_create(rank_main, r);
    for (int step = 0; step < step_cap; ++step) {
        // 1. run every rank that can make progress
        bool ran = false;
        for (int r = 0; r < P; ++r) {
            if (__v_thread_finished(tid_of[r])) { ystate[r] = DONE; continue; }
            bool runnable = (ystate[r] == RUNNING) || progress[r];      // blocked ranks are woken by an event only
            if (!runnable) continue;
            progress[r] = 1;                                             // one full pass before it may quiesce again
            ystate[r] = RUNNING;
            __v_switch(tid_of[r]);
            if (__v_thread_finished(tid_of[r])) ystate[r] = DONE;
            ran = true;
        }
        // 2. release complete collectives
        bool released = false;
        for (int c = 0; c < ncomms; ++c)
            if (coll[c].phase == 0 && coll[c].narrived == comms[c].n && comms[c].n > 0) {
                coll[c].phase = 1; released = true;
                for (int i = 0; i < comms[c].n; ++i) progress[comms[c].member[i]] = 1;
            }
        if (ran || released) continue;
        bool all_done = true;
        for (int r = 0; r < P; ++r) if (ystate[r] != DONE) all_done = false;
        if (all_done) return 1;
        // 3. everybody is blocked: deliver one message (nondeterministic choice of the channel)
        int chan[MAXR * MAXR], nchan = 0;
        for (int s = 0; s < P; ++s) for (int d = 0; d < P; ++d) { int i = inflight_on(s, d); if (i >= 0) chan[nchan++] = i; }
        if (nchan == 0) {                               // deadlock: nobody can move, nothing in flight
            for (int r = 0; r < P; ++r) { verif::record_int("deadlock: state of rank (1 quiescent, 2 in collective, 3 done)", ystate[r]); verif::record_int("deadlock: last collective of the rank (10*comm + kind)", last_coll[r]); verif::record_int("deadlock: 1 = waiting to enter, 2 = waiting to leave", last_phase[r]); }
            for (int c = 0; c < ncomms; ++c) { verif::record_int("deadlock: communicator size", comms[c].n); verif::record_int("deadlock: ranks waiting in its collective", coll[c].narrived); verif::record_int("deadlock: collective kind (0 bcast 1 reduce 2 barrier 3 split)", coll[c].kind); }
            return 0;
        }
#ifdef VM_FREE_CHOICES
        // only the first VM_FREE_CHOICES delivery decisions are nondeterministic (units whose subject is not the dispatcher)
        static int choices_made = 0;
        long pick = (nchan == 1 || choices_made >= VM_FREE_CHOICES) ? 0 : (++choices_made, verif::concretize(verif::sym_int("deliver", 0, nchan - 1)));
#else
        long pick = nchan == 1 ? 0 : verif::concretize(verif::sym_int("deliver", 0, nchan - 1));
#endif
        deliver(chan[pick]);
    }
    return -1;   // step cap
}
}  // namespace vm
#endif
