// Model of <boost/mpi.hpp> used by ALL verification compiles (placed first on the
// include path).  It declares exactly the part of Boost.MPI that pomerol uses and
// forwards every operation to a small C interface (__vmpi_*) whose implementation
// is chosen per harness:
//   model/mpi_single.cpp      one rank, no messages          (most units)
//   harness-provided          message pool / collective log  (C16, C06 units)
// Semantics follow the Boost.MPI 1.83 headers in /usr/include/boost/mpi:
//   request::test()   -> empty optional when the request is inactive (default
//                        constructed or already completed), otherwise completes iff a
//                        matching message has arrived;
//   send              -> buffered (eager protocol for the 4-byte payloads used);
//   messages between a (source,destination) pair do not overtake each other.
#ifndef VERIF_MODEL_BOOST_MPI_HPP
#define VERIF_MODEL_BOOST_MPI_HPP

#include <vector>
#include <map>
#include <functional>
#include <boost/optional.hpp>
#include <boost/serialization/access.hpp>
#include <boost/serialization/vector.hpp>
#include <boost/serialization/complex.hpp>

extern "C" {
int  __vmpi_rank(int comm);
int  __vmpi_size(int comm);
void __vmpi_barrier(int comm);
int  __vmpi_split(int comm, int color);
void __vmpi_send(int comm, int dest, int tag, int has_payload, int payload);
int  __vmpi_irecv(int comm, int source, int tag, int* payload_dst);      // returns request handle (>0)
int  __vmpi_test(int request, int* tag_out, int* source_out);            // 1 = completed now
void __vmpi_cancel(int request);
// collectives: kind 0=broadcast 1=reduce; the harness model records / moves data
void __vmpi_collective(int comm, int kind, int root, long count, long elem_size, void* data);
}

#define MPI_ANY_TAG (-1)
#define MPI_ANY_SOURCE (-2)
typedef int MPI_Comm;
#define MPI_COMM_WORLD 0
inline int MPI_Barrier(MPI_Comm c) { __vmpi_barrier(c); return 0; }

namespace boost { namespace mpi {

class status {
public:
    int m_source, m_tag;
    status() : m_source(-1), m_tag(-1) {}
    int source() const { return m_source; }
    int tag() const { return m_tag; }
};

class request {
public:
    int h;
    request() : h(0) {}
    explicit request(int h) : h(h) {}
    boost::optional<status> test() {
        if (h == 0) return boost::optional<status>();
        status s;
        if (__vmpi_test(h, &s.m_tag, &s.m_source)) { h = 0; return boost::optional<status>(s); }
        return boost::optional<status>();
    }
    void cancel() { if (h != 0) __vmpi_cancel(h); h = 0; }
    bool active() const { return h != 0; }
};

class communicator {
public:
    int id;
    communicator() : id(0) {}
    explicit communicator(int id) : id(id) {}
    int rank() const { return __vmpi_rank(id); }
    int size() const { return __vmpi_size(id); }
    void barrier() const { __vmpi_barrier(id); }
    communicator split(int color) const { return communicator(__vmpi_split(id, color)); }
    communicator split(int color, int /*key*/) const { return communicator(__vmpi_split(id, color)); }
    void send(int dest, int tag) const { __vmpi_send(id, dest, tag, 0, 0); }
    void send(int dest, int tag, const int& value) const { __vmpi_send(id, dest, tag, 1, value); }
    request irecv(int source, int tag) const { return request(__vmpi_irecv(id, source, tag, 0)); }
    request irecv(int source, int tag, int& value) const { return request(__vmpi_irecv(id, source, tag, &value)); }
    operator MPI_Comm() const { return id; }
};

class environment {
public:
    environment() {}
    environment(int&, char**&, bool = true) {}
    static bool initialized() { return true; }
};

template<typename T> void broadcast(const communicator& c, T* values, int n, int root) {
    __vmpi_collective(c.id, 0, root, n, sizeof(T), (void*)values);
}
template<typename T> void broadcast(const communicator& c, T& value, int root) {
    __vmpi_collective(c.id, 0, root, 1, sizeof(T), (void*)&value);
}
template<typename T, typename Op> void reduce(const communicator& c, const T* in, int n, T* out, Op, int root) {
    __vmpi_collective(c.id, 1, root, n, sizeof(T), (void*)in);
    if (c.rank() == root) for (int i = 0; i < n; ++i) out[i] = in[i];
}
template<typename T, typename Op> void reduce(const communicator& c, const T* in, int n, Op, int root) {
    __vmpi_collective(c.id, 1, root, n, sizeof(T), (void*)in);
}
template<typename T, typename Op> void all_reduce(const communicator& c, const T* in, int n, T* out, Op) {
    __vmpi_collective(c.id, 1, -1, n, sizeof(T), (void*)in);
    for (int i = 0; i < n; ++i) out[i] = in[i];
}

}}  // namespace boost::mpi
#endif
