// Model of <boost/mpi.hpp> used by ALL verification compiles (placed first on the
// include path).  It declares exactly the part of Boost.MPI that pomerol uses and
// forwards every operation to a small C interface (__vmpi_*) whose implementation
// is chosen per harness:
//   model/mpi_single.cpp      one rank, no messages          (most units)
//   harness-provided          message pool / collective log  (C16, C06 units)
// Semantics follow the Boost.MPI 1.83 headers in /usr/include/boost/mpi:
//   request::test()   -> empty optional when the request is inactive (default
//                        constructed or already completed), otherwise completes iff a
//                        matching message has arrived;
//   send              -> buffered (eager protocol for the 4-byte payloads used);
//   messages between a (source,destination) pair do not overtake each other.
#ifndef VERIF_MODEL_BOOST_MPI_HPP
#define VERIF_MODEL_BOOST_MPI_HPP

#include <iostream>
#include <algorithm>
#include <stdexcept>
#include <vector>
#include <map>
#include <functional>
#include <set>
#include <boost/optional.hpp>
#include <boost/type_traits/is_arithmetic.hpp>
#include <boost/serialization/access.hpp>
#include <boost/serialization/vector.hpp>
#include <boost/serialization/complex.hpp>

extern "C" {
int  __vmpi_rank(int comm);
int  __vmpi_size(int comm);
void __vmpi_barrier(int comm);
int  __vmpi_split(int comm, int color);
void __vmpi_send(int comm, int dest, int tag, int has_payload, int payload);
int  __vmpi_irecv(int comm, int source, int tag, int* payload_dst);      // returns request handle (>0)
int  __vmpi_test(int request, int* tag_out, int* source_out);            // 1 = completed now
void __vmpi_cancel(int request);
// collectives: rendezvous of all ranks of comm; bcast_sync returns the root's buffer, gather_ptrs an array of the size() input
// buffers indexed by rank; coll_done releases the buffers (second phase of the rendezvous)
const void* __vmpi_bcast_sync(int comm, int root, const void* mine, long count);
const void* const* __vmpi_gather_ptrs(int comm, int root, const void* mine, long count);
void __vmpi_coll_done(int comm);
}

#define MPI_ANY_TAG (-1)
#define MPI_ANY_SOURCE (-2)
typedef int MPI_Comm;
#define MPI_COMM_WORLD 0
inline int MPI_Barrier(MPI_Comm c) { __vmpi_barrier(c); return 0; }

namespace boost { namespace mpi {

class status {
public:
    int m_source, m_tag;
    status() : m_source(-1), m_tag(-1) {}
    int source() const { return m_source; }
    int tag() const { return m_tag; }
};

class request {
public:
    int h;
    request() : h(0) {}
    explicit request(int h) : h(h) {}
    boost::optional<status> test() {
        if (h == 0) return boost::optional<status>();
        status s;
        if (__vmpi_test(h, &s.m_tag, &s.m_source)) { h = 0; return boost::optional<status>(s); }
        return boost::optional<status>();
    }
    void cancel() { if (h != 0) __vmpi_cancel(h); h = 0; }
    bool active() const { return h != 0; }
};

class communicator {
public:
    int id;
    communicator() : id(0) {}
    explicit communicator(int id) : id(id) {}
    int rank() const { return __vmpi_rank(id); }
    int size() const { return __vmpi_size(id); }
    void barrier() const { __vmpi_barrier(id); }
    communicator split(int color) const { return communicator(__vmpi_split(id, color)); }
    communicator split(int color, int /*key*/) const { return communicator(__vmpi_split(id, color)); }
    void send(int dest, int tag) const { __vmpi_send(id, dest, tag, 0, 0); }
    void send(int dest, int tag, const int& value) const { __vmpi_send(id, dest, tag, 1, value); }
    request irecv(int source, int tag) const { return request(__vmpi_irecv(id, source, tag, 0)); }
    request irecv(int source, int tag, int& value) const { return request(__vmpi_irecv(id, source, tag, &value)); }
    operator MPI_Comm() const { return id; }
};

class environment {
public:
    environment() {}
    environment(int&, char**&, bool = true) {}
    static bool initialized() { return true; }
};

// Collectives.  All simulated ranks live in one address space, so a collective is a rendezvous (two-phase: publish pointers,
// copy, release) implemented by the per-harness model; with the single-rank model both hooks return at once.
template<typename T> void broadcast(const communicator& c, T* values, int n, int root) {
    const void* src = __vmpi_bcast_sync(c.id, root, (const void*)values, (long)n);
    if (c.rank() != root) { const T* s = static_cast<const T*>(src); for (int i = 0; i < n; ++i) values[i] = s[i]; }
    __vmpi_coll_done(c.id);
}
namespace vmpi_detail {
// Objects that Boost.MPI would (de)serialise through their serialize() member (pomerol's TermList, which is not
// assignable) are copied field by field through the same serialize() member with two miniature archives.
struct out_ar { std::vector<const void*> p; template<class T> out_ar& operator&(const T& x) { p.push_back(&x); return *this; } };
struct in_ar {
    const std::vector<const void*>& p; size_t i;
    in_ar(const std::vector<const void*>& p) : p(p), i(0) {}
    template<class K, class C, class A> static void assign(std::set<K, C, A>& d, const std::set<K, C, A>& s) {
        d.clear();
        for (typename std::set<K, C, A>::const_iterator it = s.begin(); it != s.end(); ++it) d.insert(d.end(), *it);
    }
    template<class T> static void assign(T& d, const T& s) { d = s; }
    template<class T> in_ar& operator&(T& x) { assign(x, *static_cast<const T*>(p[i++])); return *this; }
};
template<class T> inline void copy_value(T& d, const T& s, boost::true_type) { d = s; }
template<class T> inline void copy_value(T& d, const T& s, boost::false_type) {
    out_ar o; boost::serialization::access::serialize(o, const_cast<T&>(s), 0u);
    in_ar in(o.p); boost::serialization::access::serialize(in, d, 0u);
}
}  // namespace vmpi_detail
template<typename T> void broadcast(const communicator& c, std::vector<T>& value, int root) {
    const void* src = __vmpi_bcast_sync(c.id, root, (const void*)&value, 1L);
    if (c.rank() != root) value = *static_cast<const std::vector<T>*>(src);
    __vmpi_coll_done(c.id);
}
template<typename T> void broadcast(const communicator& c, T& value, int root) {
    const void* src = __vmpi_bcast_sync(c.id, root, (const void*)&value, 1L);
    if (c.rank() != root) vmpi_detail::copy_value(value, *static_cast<const T*>(src), typename boost::is_arithmetic<T>::type());
    __vmpi_coll_done(c.id);
}
template<typename T, typename Op> void reduce(const communicator& c, const T* in, int n, T* out, Op op, int root) {
    const void* const* all = __vmpi_gather_ptrs(c.id, root, (const void*)in, (long)n);
    if (c.rank() == root) {
        const int P = c.size();
        for (int i = 0; i < n; ++i) {
            T acc = static_cast<const T*>(all[0])[i];
            for (int r = 1; r < P; ++r) acc = op(acc, static_cast<const T*>(all[r])[i]);
            out[i] = acc;
        }
    }
    __vmpi_coll_done(c.id);
}
template<typename T, typename Op> void all_reduce(const communicator& c, const T* in, int n, T* out, Op op) {
    const void* const* all = __vmpi_gather_ptrs(c.id, -1, (const void*)in, (long)n);
    const int P = c.size();
    for (int i = 0; i < n; ++i) {
        T acc = static_cast<const T*>(all[0])[i];
        for (int r = 1; r < P; ++r) acc = op(acc, static_cast<const T*>(all[r])[i]);
        out[i] = acc;
    }
    __vmpi_coll_done(c.id);
}

}}  // namespace boost::mpi
#endif
