// Environment model: definitions of the few libstdc++ out-of-line helpers that the
// inlined container code of the real headers calls into libstdc++.so.  Compiled to
// LLVM IR like everything else, so both engines execute the same model.
//
// The tree model links nodes as an UNBALANCED binary search tree (no rotations, no
// recolouring): the inlined callers (std::map / std::set code from the real
// headers) observe ordering and the header links only, so look-ups and iteration
// order are identical to the red-black implementation.  Every inserted node is
// black and only the header is red, which is what _Rb_tree_decrement uses to
// recognise the header.
#include <map>
#include <list>

namespace std {

_Rb_tree_node_base* _Rb_tree_increment(_Rb_tree_node_base* x) throw() {
    if (x->_M_right != 0) {
        x = x->_M_right;
        while (x->_M_left != 0) x = x->_M_left;
    } else {
        _Rb_tree_node_base* y = x->_M_parent;
        while (x == y->_M_right) { x = y; y = y->_M_parent; }
        if (x->_M_right != y) x = y;
    }
    return x;
}
const _Rb_tree_node_base* _Rb_tree_increment(const _Rb_tree_node_base* x) throw() {
    return _Rb_tree_increment(const_cast<_Rb_tree_node_base*>(x));
}
_Rb_tree_node_base* _Rb_tree_decrement(_Rb_tree_node_base* x) throw() {
    if (x->_M_color == _S_red && x->_M_parent->_M_parent == x)
        x = x->_M_right;
    else if (x->_M_left != 0) {
        _Rb_tree_node_base* y = x->_M_left;
        while (y->_M_right != 0) y = y->_M_right;
        x = y;
    } else {
        _Rb_tree_node_base* y = x->_M_parent;
        while (x == y->_M_left) { x = y; y = y->_M_parent; }
        x = y;
    }
    return x;
}
const _Rb_tree_node_base* _Rb_tree_decrement(const _Rb_tree_node_base* x) throw() {
    return _Rb_tree_decrement(const_cast<_Rb_tree_node_base*>(x));
}

void _Rb_tree_insert_and_rebalance(const bool insert_left, _Rb_tree_node_base* x,
                                   _Rb_tree_node_base* p, _Rb_tree_node_base& header) throw() {
    x->_M_parent = p;
    x->_M_left = 0;
    x->_M_right = 0;
    x->_M_color = _S_black;
    if (insert_left) {
        p->_M_left = x;                 // also makes leftmost = x when p == &header
        if (p == &header) {
            header._M_parent = x;
            header._M_right = x;
        } else if (p == header._M_left)
            header._M_left = x;
    } else {
        p->_M_right = x;
        if (p == header._M_right) header._M_right = x;
    }
}

_Rb_tree_node_base* _Rb_tree_rebalance_for_erase(_Rb_tree_node_base* const z,
                                                 _Rb_tree_node_base& header) throw() {
    _Rb_tree_node_base*& root = header._M_parent;
    _Rb_tree_node_base*& leftmost = header._M_left;
    _Rb_tree_node_base*& rightmost = header._M_right;
    _Rb_tree_node_base* y = z;
    _Rb_tree_node_base* x = 0;
    if (y->_M_left == 0) x = y->_M_right;
    else if (y->_M_right == 0) x = y->_M_left;
    else {
        y = y->_M_right;
        while (y->_M_left != 0) y = y->_M_left;
        x = y->_M_right;
    }
    if (y != z) {
        z->_M_left->_M_parent = y;
        y->_M_left = z->_M_left;
        if (y != z->_M_right) {
            if (x) x->_M_parent = y->_M_parent;
            y->_M_parent->_M_left = x;
            y->_M_right = z->_M_right;
            z->_M_right->_M_parent = y;
        }
        if (root == z) root = y;
        else if (z->_M_parent->_M_left == z) z->_M_parent->_M_left = y;
        else z->_M_parent->_M_right = y;
        y->_M_parent = z->_M_parent;
        y = z;
    } else {
        if (x) x->_M_parent = y->_M_parent;
        if (root == z) root = x;
        else if (z->_M_parent->_M_left == z) z->_M_parent->_M_left = x;
        else z->_M_parent->_M_right = x;
        if (leftmost == z) {
            if (z->_M_right == 0) leftmost = z->_M_parent;
            else { _Rb_tree_node_base* m = x; while (m->_M_left != 0) m = m->_M_left; leftmost = m; }
        }
        if (rightmost == z) {
            if (z->_M_left == 0) rightmost = z->_M_parent;
            else { _Rb_tree_node_base* m = x; while (m->_M_right != 0) m = m->_M_right; rightmost = m; }
        }
    }
    return y;
}

namespace __detail {
void _List_node_base::_M_hook(_List_node_base* const position) throw() {
    this->_M_next = position;
    this->_M_prev = position->_M_prev;
    position->_M_prev->_M_next = this;
    position->_M_prev = this;
}
void _List_node_base::_M_unhook() throw() {
    _List_node_base* const next_node = this->_M_next;
    _List_node_base* const prev_node = this->_M_prev;
    prev_node->_M_next = next_node;
    next_node->_M_prev = prev_node;
}
}  // namespace __detail
}  // namespace std
