// Single-rank world (rank 0 of 1): collectives are the identity; point-to-point
// messages (the dispatcher talks to itself on the root) are matched in posting
// order and arrive immediately.
extern "C" {

struct VMsg { int src, tag, has, payload, used; };
struct VReq { int src, tag; int* dst; int state; /*0 free,1 pending,2 completed,3 cancelled*/ int rtag, rsrc; };
enum { VCAP = 512 };
static VMsg vmsgs[VCAP]; static int vnmsg = 0;
static VReq vreqs[VCAP]; static int vnreq = 0;

int  __vmpi_rank(int) { return 0; }
int  __vmpi_size(int) { return 1; }
void __vmpi_barrier(int) {}
int  __vmpi_split(int comm, int) { return comm; }
static const void* vone[1];
const void* __vmpi_bcast_sync(int, int, const void* mine, long) { return mine; }
const void* const* __vmpi_gather_ptrs(int, int, const void* mine, long) { vone[0] = mine; return vone; }
void __vmpi_coll_done(int) {}

static int vmatch(const VReq& r, int src, int tag) {
    return (r.src == src || r.src == -2) && (r.tag == tag || r.tag == -1);
}
void __vmpi_send(int, int /*dest*/, int tag, int has, int payload) {
    for (int i = 0; i < vnreq; ++i)
        if (vreqs[i].state == 1 && vmatch(vreqs[i], 0, tag)) {
            vreqs[i].state = 2; vreqs[i].rtag = tag; vreqs[i].rsrc = 0;
            if (has && vreqs[i].dst) *vreqs[i].dst = payload;
            return;
        }
    if (vnmsg >= VCAP) __builtin_trap();
    VMsg m = {0, tag, has, payload, 0};
    vmsgs[vnmsg++] = m;
}
int __vmpi_irecv(int, int source, int tag, int* dst) {
    if (vnreq >= VCAP) __builtin_trap();
    VReq r = {source, tag, dst, 1, -1, -1};
    for (int i = 0; i < vnmsg; ++i)
        if (!vmsgs[i].used && vmatch(r, vmsgs[i].src, vmsgs[i].tag)) {
            vmsgs[i].used = 1; r.state = 2; r.rtag = vmsgs[i].tag; r.rsrc = vmsgs[i].src;
            if (vmsgs[i].has && dst) *dst = vmsgs[i].payload;
            break;
        }
    vreqs[vnreq] = r;
    return ++vnreq;
}
int __vmpi_test(int h, int* tag_out, int* src_out) {
    VReq& r = vreqs[h - 1];
    if (r.state != 2) return 0;
    *tag_out = r.rtag; *src_out = r.rsrc; r.state = 0;
    return 1;
}
void __vmpi_cancel(int h) { if (vreqs[h - 1].state == 1) vreqs[h - 1].state = 3; }
}
