// Harness API shared by the symbolic engines and the native replay build.
//
//  symbolic build (default):  the functions below are external; engine E2 (vlib/irs.py)
//                             interprets them, engine E1 (vlib/irc.py) maps them to
//                             CBMC primitives.
//  native build (-DVERIF_NATIVE): definitions come from include/verif_native.h; inputs
//                             are read from the replay file named by $VERIF_REPLAY
//                             (or take default concrete values), checks are evaluated on
//                             IEEE doubles with a relative tolerance.
#ifndef VERIF_H
#define VERIF_H

extern "C" {
long   __v_sym_int(const char* name, long lo, long hi);   // lo <= result <= hi
double __v_sym_real(const char* name);                    // arbitrary real
void   __v_assume(bool c);
void   __v_check(bool c, const char* label);              // the property: must hold on every path
void   __v_check_eq(double a, double b, const char* label);   // a == b  (native: relative 1e-9)
void   __v_check_le(double a, double b, const char* label);   // a <= b  (native: a <= b + tol)
void   __v_reach(const char* label);                      // vacuity witness
void   __v_record(const char* label, double v);           // differential trace value
void   __v_record_int(const char* label, long v);
double __v_exp_lemma_add(double a, double b);             // asserts E(a+b) = E(a)E(b); returns E(a+b)
double __v_exp_lemma_inv(double a);                       // asserts E(a)E(-a) = 1; returns E(a)
void   __v_note(const char* label);                       // free-form trace marker
long   __v_concretize(long v);                            // fork over the feasible values of v
void   __v_check_exp_args(const char* label);             // all exp() arguments so far are <= 0, one of them is 0
void   __v_exp_scope_begin(void);                         // start recording the arguments of exp() calls (library code under test)
void   __v_check_exp_no_overflow(const char* label);      // no exp() argument since __v_exp_scope_begin exceeds 709 (exp overflows a double above 709.78)
// cooperative threads of the symbolic engine (one simulated MPI rank per thread; see model/mpi_multi.cpp)
long   __v_thread_create(void (*fn)(long), long arg);     // created suspended; returns its id (main thread = 0)
void   __v_switch(long tid);                              // transfer control; returns when control is transferred back
long   __v_thread_finished(long tid);
long   __v_cur_thread(void);
}

namespace verif {
inline long   sym_int(const char* n, long lo, long hi) { return __v_sym_int(n, lo, hi); }
inline bool   sym_bool(const char* n) { return __v_sym_int(n, 0, 1) != 0; }
inline double sym_real(const char* n) { return __v_sym_real(n); }
inline void   assume(bool c) { __v_assume(c); }
inline void   check(bool c, const char* l) { __v_check(c, l); }
inline void   check_eq(double a, double b, const char* l) { __v_check_eq(a, b, l); }
inline void   check_le(double a, double b, const char* l) { __v_check_le(a, b, l); }
inline void   reach(const char* l) { __v_reach(l); }
inline void   record(const char* l, double v) { __v_record(l, v); }
inline void   record_int(const char* l, long v) { __v_record_int(l, v); }
inline long   concretize(long v) { return __v_concretize(v); }
}

#ifdef VERIF_NATIVE
#include "verif_native.h"
#endif

#endif
