// Native definitions of the harness API (replay of counterexamples and translator
// validation).  Inputs come from the file named by $VERIF_REPLAY, one "name value"
// pair per line (value: integer, decimal or exact rational p/q); an input that is
// not listed takes its default: lo for sym_int, a fixed pseudo-random value derived
// from the name for sym_real.  check() failures are printed as
//     FAILED <label>
// and counted; the process exits with status 3 if any check failed (main in
// verif_native_main.h).
#ifndef VERIF_NATIVE_H
#define VERIF_NATIVE_H
#include <cstdio>
#include <cstdlib>
#include <cstring>
#include <cmath>
#include <string>
#include <map>
#include <boost/mpi.hpp>

namespace verif_native {
struct St {
    std::map<std::string, std::string> in;
    std::map<std::string, int> seen;
    int failed, checks, infeasible;
    bool loaded;
    St() : failed(0), checks(0), infeasible(0), loaded(false) {}
};
inline St& st() { static St s; return s; }
inline void load() {
    St& s = st();
    if (s.loaded) return;
    s.loaded = true;
    const char* f = std::getenv("VERIF_REPLAY");
    if (!f) return;
    FILE* fp = std::fopen(f, "r");
    if (!fp) { std::fprintf(stderr, "cannot open %s\n", f); std::exit(2); }
    char name[256], val[512];
    while (std::fscanf(fp, "%255s %511s", name, val) == 2) s.in[name] = val;
    std::fclose(fp);
}
inline std::string uniq(const char* name) {
    St& s = st();
    std::string n(name);
    return n;
}
inline double parse_real(const std::string& v) {
    size_t p = v.find('/');
    if (p == std::string::npos) return std::strtod(v.c_str(), 0);
    return std::strtod(v.substr(0, p).c_str(), 0) / std::strtod(v.substr(p + 1).c_str(), 0);
}
inline double default_real(const std::string& n) {
    unsigned h = 2166136261u;
    for (size_t i = 0; i < n.size(); ++i) { h ^= (unsigned char)n[i]; h *= 16777619u; }
    h ^= h >> 16; h *= 0x85ebca6bu; h ^= h >> 13; h *= 0xc2b2ae35u; h ^= h >> 16;   // avalanche
    return 0.25 + (h % 100003) / 40000.0;   // in [0.25, 2.75)
}
}  // namespace verif_native

extern "C" {
inline long __v_sym_int(const char* name, long lo, long hi) {
    verif_native::load();
    std::map<std::string, std::string>& in = verif_native::st().in;
    std::map<std::string, std::string>::iterator it = in.find(name);
    long v = (it == in.end()) ? lo : std::strtol(it->second.c_str(), 0, 10);
    if (v < lo || v > hi) { std::printf("INFEASIBLE input %s=%ld outside [%ld,%ld]\n", name, v, lo, hi); std::exit(4); }
    return v;
}
inline double __v_sym_real(const char* name) {
    verif_native::load();
    std::map<std::string, std::string>& in = verif_native::st().in;
    std::map<std::string, std::string>::iterator it = in.find(name);
    if (it == in.end()) return verif_native::default_real(name);
    return verif_native::parse_real(it->second);
}
inline void __v_assume(bool c) {
    if (!c) { std::printf("INFEASIBLE assumption violated by the replayed input\n"); std::fflush(stdout); std::exit(4); }
}
inline void __v_check(bool c, const char* label) {
    verif_native::st().checks++;
    if (!c) { verif_native::st().failed++; std::printf("FAILED %s\n", label); std::fflush(stdout); }
}
inline void __v_check_eq(double a, double b, const char* label) {
    verif_native::st().checks++;
    double tol = 1e-9 * (std::fabs(a) + std::fabs(b)) + 1e-12;
    if (!(std::fabs(a - b) <= tol)) {
        verif_native::st().failed++;
        std::printf("FAILED %s : %.17g vs %.17g\n", label, a, b); std::fflush(stdout);
    }
}
inline void __v_check_le(double a, double b, const char* label) {
    verif_native::st().checks++;
    double tol = 1e-9 * (std::fabs(a) + std::fabs(b)) + 1e-12;
    if (!(a <= b + tol)) {
        verif_native::st().failed++;
        std::printf("FAILED %s : %.17g > %.17g\n", label, a, b); std::fflush(stdout);
    }
}
inline void __v_reach(const char* label) { std::printf("REACH %s\n", label); std::fflush(stdout); }
inline void __v_note(const char* label) { std::printf("NOTE %s\n", label); }
inline void __v_record(const char* label, double v) { std::printf("REC %s %.12g\n", label, v); }
inline void __v_record_int(const char* label, long v) { std::printf("REC %s %ld\n", label, v); }
inline double __v_exp_lemma_add(double a, double b) { return std::exp(a + b); }
inline double __v_exp_lemma_inv(double a) { return std::exp(a); }
inline long __v_concretize(long v) { return v; }
// exp() calls of the whole native program are intercepted (link flag -Wl,--wrap=exp)
double __real_exp(double);
inline double& __v_exp_max() { static double m = -1e300; return m; }
inline int& __v_exp_zero() { static int z = 0; return z; }
inline int& __v_exp_n() { static int z = 0; return z; }
inline double& __v_exp_scope_max() { static double m = -1e300; return m; }
double __wrap_exp(double x);
inline void __v_exp_scope_begin(void) { __v_exp_scope_max() = -1e300; }
inline void __v_check_exp_no_overflow(const char* label) {
    char buf[256];
    std::snprintf(buf, sizeof buf, "%s: no exp argument exceeds 709 (overflow of a double)", label);
    __v_check(__v_exp_scope_max() <= 709.0, buf);
}
inline void __v_check_exp_args(const char* label) {
    char buf[256];
    std::snprintf(buf, sizeof buf, "%s: every exp argument <= 0", label);
    __v_check(__v_exp_n() == 0 || __v_exp_max() <= 1e-12, buf);
    std::snprintf(buf, sizeof buf, "%s: some exp argument == 0", label);
    __v_check(__v_exp_zero() > 0, buf);
}
}

extern "C" void h_main();
extern "C" double __wrap_exp(double x) {
    if (x > __v_exp_max()) __v_exp_max() = x;
    if (x > __v_exp_scope_max()) __v_exp_scope_max() = x;
    if (x <= 1e-12 && x >= -1e-12) __v_exp_zero()++;
    __v_exp_n()++;
    return __real_exp(x);
}
#ifndef VERIF_NO_MAIN
int main(int argc, char** argv) {
    boost::mpi::environment env(argc, argv);
    h_main();
    std::printf("NATIVE checks=%d failed=%d\n", verif_native::st().checks, verif_native::st().failed);
    return verif_native::st().failed ? 3 : 0;
}
#endif
#endif
